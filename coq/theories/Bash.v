(* C20, second sentence: the script audit2bash generates re-creates the file.
   The script lists, in report order, one guarded command per task of the lineage:
       if any of the task's outputs exists: skip; else: run the command (with "../" stripped, i.e. in the directory itself).
   That is Result.run_task for each listed task, in order -- Result.result of the sub-list of lineage tasks.  The theorem:
   running only a dependency-closed sub-list of the tasks, from the source files alone, gives every output of the listed
   tasks the content the complete run gives it. *)
From Coq Require Import List Arith Lia Bool PeanoNat.
Import ListNotations.
From SP Require Import Result.

(* the listed tasks: positions marked true *)
Fixpoint sub (ts : list task) (ks : list bool) : list task :=
  match ts, ks with
  | t :: r, true :: kr => t :: sub r kr
  | _ :: r, false :: kr => sub r kr
  | _, _ => []
  end.

Section Closed.
Variable all : list task.
Variable keep : list bool.
Hypothesis LEN : length keep = length all.

(* x is written by a listed task *)
Definition kept_out (x : nat) : Prop := exists i t, nth_error all i = Some t /\ nth i keep false = true /\ In x (tout t).
(* x is a source: no task writes it *)
Definition source (x : nat) : Prop := forall t, In t all -> ~ In x (tout t).
Definition inL (x : nat) : Prop := source x \/ kept_out x.

(* the lineage is closed under "is an input of": whatever a listed task reads is a source file or an output of a listed task *)
Definition closed : Prop :=
  forall i t, nth_error all i = Some t -> nth i keep false = true -> forall x, In x (tin t) -> inL x.

Definition agreeL (f g : fs) : Prop := forall x, inL x -> f x = g x.

(* the suffix of [all] / [keep] from position k *)
Lemma result_sub_agree : closed -> wf all ->
  forall k ts ks, ts = skipn k all -> ks = skipn k keep ->
  forall f g fR, agreeL f g ->
  (forall t, In t ts -> forall x, In x (tout t) -> f x = None /\ g x = None) ->
  result ts f = Some fR ->
  exists gS, result (sub ts ks) g = Some gS /\ agreeL fR gS.
Proof.
  intros CL WF k ts. revert k. induction ts as [|t r IH]; intros k ks Ets Eks f g fR AG PEND RES.
  - simpl in RES. injection RES as <-. exists g. split; [destruct ks as [|[|] ?]; reflexivity|exact AG].
  - (* position k holds t *)
    assert (Hk : nth_error all k = Some t).
    { clear -Ets. revert all Ets. induction k as [|k IHk]; intros [|a l] E; simpl in *; try discriminate.
      - now inversion E.
      - apply IHk. exact E. }
    assert (Hklen : k < length all) by (apply nth_error_Some; congruence).
    destruct ks as [|b kr].
    { exfalso. assert (L : length (skipn k keep) = length keep - k) by apply skipn_length. rewrite <- Eks in L. simpl in L. lia. }
    assert (Hb : nth k keep false = b).
    { clear -Eks. revert keep Eks. induction k as [|k IHk]; intros [|a l] E; simpl in *; try discriminate.
      - now inversion E.
      - apply IHk. exact E. }
    assert (Er : r = skipn (S k) all).
    { clear -Ets. revert all Ets. induction k as [|k IHk]; intros [|a l] E; simpl in *; try discriminate.
      - now inversion E.
      - apply IHk. exact E. }
    assert (Ekr : kr = skipn (S k) keep).
    { clear -Eks. revert keep Eks. induction k as [|k IHk]; intros [|a l] E; simpl in *; try discriminate.
      - now inversion E.
      - apply IHk. exact E. }
    (* wf of the suffix t :: r *)
    assert (WFs : wf (t :: r)).
    { clear -WF Ets. revert all WF Ets. induction k as [|k IHk]; intros l W E; simpl in E.
      - subst. exact W.
      - destruct l as [|a l']; [discriminate|]. simpl in W. destruct W as [_ [_ [_ W]]]. apply (IHk l' W E). }
    simpl in WFs. destruct WFs as [Hdis [Hin [Hlen WFr]]].
    simpl in RES. destruct (run_task t f) as [f'|] eqn:E1; [|discriminate].
    assert (Pt : forall x, In x (tout t) -> f x = None /\ g x = None) by (intros x Hx; apply (PEND t); [left; reflexivity|exact Hx]).
    assert (A0 : any_exists f (tout t) = false).
    { destruct (any_exists f (tout t)) eqn:A; auto. apply any_exists_true in A. destruct A as [x [c [Hx Hc]]].
      destruct (Pt x Hx) as [Hf _]. congruence. }
    assert (B0 : any_exists g (tout t) = false).
    { destruct (any_exists g (tout t)) eqn:A; auto. apply any_exists_true in A. destruct A as [x [c [Hx Hc]]].
      destruct (Pt x Hx) as [_ Hg]. congruence. }
    unfold run_task in E1. rewrite A0 in E1. destruct (sem t (map f (tin t))) as [cs|] eqn:S1; [|discriminate].
    inversion E1; subst f'. clear E1.
    assert (PENDr : forall f2 g2, (forall x, ~ In x (tout t) -> f2 x = f x) -> (forall x, ~ In x (tout t) -> g2 x = g x) ->
                    forall t', In t' r -> forall x, In x (tout t') -> f2 x = None /\ g2 x = None).
    { intros f2 g2 Hf2 Hg2 t' Ht' x Hx.
      assert (Hn : ~ In x (tout t)) by (intros Hx'; eapply Hdis; eauto).
      rewrite Hf2, Hg2 by assumption. apply (PEND t'); [right; exact Ht'|exact Hx]. }
    destruct b.
    + (* listed: the script runs it, on the same inputs *)
      simpl sub. simpl result. unfold run_task. rewrite B0.
      assert (Hins : map g (tin t) = map f (tin t)).
      { apply map_ext_in. intros x Hx. symmetry. apply AG. apply (CL k t Hk Hb x Hx). }
      rewrite Hins, S1.
      apply (IH (S k) kr Er Ekr (write_all f (tout t) cs) (write_all g (tout t) cs) fR).
      * intros x HL. destruct (in_dec Nat.eq_dec x (tout t)) as [Hi|Hn].
        -- apply write_all_in_indep; auto. apply (Hlen _ _ S1).
        -- rewrite !write_all_out by assumption. apply AG. exact HL.
      * apply PENDr; intros x Hn; apply write_all_out; exact Hn.
      * exact RES.
    + (* not listed: the script does not run it; what it writes is outside the lineage *)
      simpl sub.
      apply (IH (S k) kr Er Ekr (write_all f (tout t) cs) g fR).
      * intros x HL. destruct (in_dec Nat.eq_dec x (tout t)) as [Hi|Hn].
        -- exfalso. destruct HL as [Hs|[i [t' [Hi' [Hki Hxi]]]]].
           ++ apply (Hs t); [eapply nth_error_In; eauto|exact Hi].
           ++ (* t' is listed, t is not: different positions; their outputs are disjoint *)
              destruct (Nat.eq_dec i k) as [->|Hne]; [congruence|].
              assert (Dis : forall a b ta tb, a < b -> nth_error all a = Some ta -> nth_error all b = Some tb -> forall y, In y (tout ta) -> ~ In y (tout tb)).
              { clear -WF. revert WF. generalize all. intros l. induction l as [|h l' IHl]; intros W a b ta tb Hab Ha Hb y Hy.
                - destruct a; discriminate.
                - simpl in W. destruct W as [D [_ [_ W']]]. destruct a as [|a].
                  + simpl in Ha. inversion Ha; subst. destruct b as [|b]; [lia|]. simpl in Hb. apply (D tb); [eapply nth_error_In; eauto|exact Hy].
                  + destruct b as [|b]; [lia|]. simpl in Ha, Hb. apply (IHl W' a b ta tb); auto; lia. }
              destruct (Nat.lt_ge_cases i k) as [Hlt|Hge].
              ** apply (Dis i k t' t Hlt Hi' Hk x Hxi Hi).
              ** assert (k < i) by lia. apply (Dis k i t t' H Hk Hi' x Hi Hxi).
        -- rewrite write_all_out by assumption. apply AG. exact HL.
      * apply PENDr; [intros x Hn; apply write_all_out; exact Hn|reflexivity].
      * exact RES.
Qed.

(* the script, run in a directory that holds only the source files, succeeds and gives every output of a listed task the
   content the complete run gives it *)
Theorem script_reproduces f0 fR : closed -> wf all ->
  (forall t, In t all -> forall x, In x (tout t) -> f0 x = None) ->
  result all f0 = Some fR ->
  exists fS, result (sub all keep) f0 = Some fS /\ forall x, kept_out x -> fS x = fR x.
Proof.
  intros CL WF CLEAN RES.
  assert (AG : agreeL f0 f0) by (intros x _; reflexivity).
  assert (PEND : forall t, In t all -> forall x, In x (tout t) -> f0 x = None /\ f0 x = None) by (intros t Ht x Hx; split; eapply CLEAN; eauto).
  destruct (result_sub_agree CL WF 0 all keep eq_refl eq_refl f0 f0 fR AG PEND RES) as [gS [R A]].
  exists gS. split; [exact R|]. intros x Hx. symmetry. apply A. right. exact Hx.
Qed.

End Closed.

(* non-vacuity: a diamond a -> (b, c) -> d plus an unrelated task e; the lineage of d's output lists a, b, c, d *)
Definition tA : task := {| tin := [0]; tout := [1]; sem := fun xs => match xs with [Some v] => Some [v + 1] | _ => None end |}.
Definition tB : task := {| tin := [1]; tout := [2]; sem := fun xs => match xs with [Some v] => Some [v * 2] | _ => None end |}.
Definition tC : task := {| tin := [1]; tout := [3]; sem := fun xs => match xs with [Some v] => Some [v * 3] | _ => None end |}.
Definition tE : task := {| tin := [0]; tout := [9]; sem := fun xs => match xs with [Some v] => Some [v + 100] | _ => None end |}.
Definition tD : task := {| tin := [2; 3]; tout := [4]; sem := fun xs => match xs with [Some v; Some w] => Some [v + w] | _ => None end |}.
Example script_example :
  let f0 : fs := fun x => if Nat.eqb x 0 then Some 5 else None in
  match result [tA; tB; tE; tC; tD] f0, result (sub [tA; tB; tE; tC; tD] [true; true; false; true; true]) f0 with
  | Some fR, Some fS => fR 4 = Some 30 /\ fS 4 = Some 30 /\ fS 9 = None /\ fR 9 = Some 105
  | _, _ => False
  end.
Proof. vm_compute. repeat split; reflexivity. Qed.
