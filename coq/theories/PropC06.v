(* C06 -- Concurrently executing tasks never exceed maxConcurrentTasks.
   Model: Slots -- the token channel of capacity `cap`, the mutex, and per task the program of IncConcurrentTasks
   (lock; deposit `cores` tokens one by one, blocking when the channel is full; unlock), the command, and
   DecConcurrentTasks (remove `cores` tokens one by one, no lock). *)
From Coq Require Import List Arith Lia Bool String.
Import ListNotations.
From SP Require Import Skel Gen Expected ExpectedCones Slots Slots7 SlotsTop.
From SP Require NetA Inv NetSlots.

(* T1: the two slot functions have exactly the modelled shape, and Task.Execute brackets the command with them *)
Theorem C06_code_conforms :
  skel_eqb skel_Workflow_IncConcurrentTasks exp_Workflow_IncConcurrentTasks
  && skel_eqb skel_Workflow_DecConcurrentTasks exp_Workflow_DecConcurrentTasks
  && skel_eqb skel_Task_Execute exp_Task_Execute = true.
Proof. vm_compute. reflexivity. Qed.

Theorem C06_order_facts :
  skel_eqb exp_Workflow_IncConcurrentTasks
     [SLock "wf.concurrentTasksMx"; SFor "i < slots" [SSend "wf.concurrentTasks"]; SUnlock "wf.concurrentTasksMx"]
  && skel_eqb exp_Workflow_DecConcurrentTasks [SFor "i < slots" [SRecv "wf.concurrentTasks"]]
  && call_before "t.workflow.IncConcurrentTasks" "t.executeCommand" exp_Task_Execute
  && call_before "t.executeCommand" "t.workflow.DecConcurrentTasks" exp_Task_Execute
  && call_before "t.finalizePaths" "t.workflow.DecConcurrentTasks" exp_Task_Execute = true.
Proof. vm_compute. reflexivity. Qed.

(* for every capacity, every list of tasks with arbitrary core counts, every schedule: the cores of the tasks whose
   command is executing sum to at most the capacity *)
Theorem C06_slots_never_exceeded : forall (cap0 : nat) (cs : list nat) (sched : list nat) (s' : state),
  run (init cap0 cs) sched = Some s' -> tsum executing (tasks s') <= cap0.
Proof. exact SlotsTop.never_exceeded. Qed.

(* the same from any state satisfying the token invariant (tokens = sum of what tasks hold <= cap) *)
Theorem C06_invariant_form : forall (s : state) (sched : list nat) (s' : state),
  Inv s -> run s sched = Some s' -> tsum executing (tasks s') <= cap s'.
Proof. exact Slots.C06_slots_never_exceeded. Qed.

(* non-vacuity: three tasks of 2, 1, 2 cores on capacity 3; a schedule that brings the first two to Running *)
Theorem C06_nonvacuous :
  exists s', run (init 3 [2; 1; 2]) [0; 0; 0; 0; 0; 1; 1; 1; 1] = Some s' /\ tsum executing (tasks s') = 3.
Proof. eexists. split; vm_compute; reflexivity. Qed.

(* the same inside a running workflow: tasks are not given in advance but spawned by the processes of the network as
   their inputs arrive (NetSlots: the process network composed with the slot machine).  In every reachable state of the
   product -- every network, every stream length, every schedule -- the executing cores sum to at most the maximum *)
Theorem C06_in_workflow : forall (p : NetSlots.pcfg) (len : nat -> nat),
  Inv.wf (NetSlots.ncfg p) len -> (forall v, v < NetA.nn (NetSlots.ncfg p) -> NetSlots.pcores p v <= NetSlots.pcap p) ->
  forall (l : list NetSlots.pact) (s : NetSlots.pst),
  NetSlots.prun p (NetSlots.pinit p) l = Some s ->
  tsum executing (tasks (NetSlots.sl s)) <= NetSlots.pcap p.
Proof. exact NetSlots.product_slots_never_exceeded. Qed.

(* T1, call cones: every function of scipipe that the functions above can reach (calls and function values, interface calls
   resolved to every implementation) is one the models were compared with -- a helper that is new to the cone, or a new call
   of an old one, changes a list (the lists are regenerated from /repo on every run; ExpectedCones.v holds the accepted ones) *)
Theorem C06_cone_conforms :
  strs_eqb cone_Workflow_IncConcurrentTasks exp_cone_Workflow_IncConcurrentTasks
  && strs_eqb cone_Workflow_DecConcurrentTasks exp_cone_Workflow_DecConcurrentTasks
  && strs_eqb cone_Task_Execute exp_cone_Task_Execute = true.
Proof. vm_compute. reflexivity. Qed.

Print Assumptions C06_code_conforms.
Print Assumptions C06_order_facts.
Print Assumptions C06_slots_never_exceeded.
Print Assumptions C06_invariant_form.
Print Assumptions C06_nonvacuous.
Print Assumptions C06_in_workflow.
Print Assumptions C06_cone_conforms.
