(* C17 for any number of streaming pairs that share the workflow's task slots.
   Each pair is the machine of Stream.v (producer, named pipe, consumer -- executing, or skipped and draining when its
   output is already on disk); the only coupling between pairs is the shared slot counter.  A global step picks a pair
   and runs one step of the pair machine on the pair's state with the shared counter put in place of its own.
   Quantifiers: every number of pairs, every payload / pipe capacity / mode per pair, every slot count, every schedule. *)
From Coq Require Import List Arith Lia Bool.
Import ListNotations.
From SP Require Import Stream StreamLive.

Definition set_tok (s : st) (t : nat) : st :=
  {| fifo := fifo s; wclosed := wclosed s; buf := buf s; sent := sent s; got := got s; pp := pp s; cp := cp s;
     tokens := t; paudit := paudit s; outfile := outfile s |}.

Record gcfg := { cfgs : list cfg; gslots : nat }.
Record gst := { pairs : list st; gtok : nat }.

(* the pair's configuration with the workflow's slot count *)
Definition pcfg (g : gcfg) (c : cfg) : cfg :=
  {| payload := payload c; pipecap := pipecap c; slots := gslots g; skip := skip c; old := old c |}.

Definition ginit (g : gcfg) : gst := {| pairs := map (fun c => init (pcfg g c)) (cfgs g); gtok := 0 |}.

Fixpoint upd {A} (i : nat) (x : A) (l : list A) : list A :=
  match l, i with
  | [], _ => []
  | _ :: r, 0 => x :: r
  | y :: r, S j => y :: upd j x r
  end.

Definition gstep (g : gcfg) (s : gst) (ia : nat * act) : option gst :=
  let (i, a) := ia in
  match nth_error (cfgs g) i, nth_error (pairs s) i with
  | Some c, Some p =>
      match step (pcfg g c) (set_tok p (gtok s)) a with
      | Some p' => Some {| pairs := upd i p' (pairs s); gtok := tokens p' |}
      | None => None
      end
  | _, _ => None
  end.

Fixpoint grun (g : gcfg) (s : gst) (l : list (nat * act)) : option gst :=
  match l with [] => Some s | a :: r => match gstep g s a with Some s' => grun g s' r | None => None end end.

Definition sum (l : list nat) : nat := fold_right Nat.add 0 l.

(* ---- the invariant: every pair satisfies the pair invariants; the counter is the sum of what the pairs hold ---- *)
Definition PInv (g : gcfg) (c : cfg) (p : st) : Prop := DInv (pcfg g c) p /\ LInvO p.
Definition GInv (g : gcfg) (s : gst) : Prop :=
  Forall2 (PInv g) (cfgs g) (pairs s) /\ gtok s = sum (map held (pairs s)).

Lemma ginit_inv g : GInv g (ginit g).
Proof.
  unfold GInv, ginit. simpl. split.
  - induction (cfgs g) as [|c r IH]; simpl; constructor; auto. split; [apply init_dinv|apply init_linvO].
  - induction (cfgs g) as [|c r IH]; simpl; auto.
Qed.

Lemma forall2_upd {A B} (R : A -> B -> Prop) cs : forall ps i c p',
  Forall2 R cs ps -> nth_error cs i = Some c -> R c p' -> Forall2 R cs (upd i p' ps).
Proof.
  induction cs as [|c0 cs IH]; intros ps i c p' F Hc Hr; inversion F; subst.
  - destruct i; discriminate.
  - destruct i as [|i]; simpl in *.
    + injection Hc as ->. constructor; auto.
    + constructor; auto. eapply IH; eauto.
Qed.

Lemma forall2_nth {A B} (R : A -> B -> Prop) cs : forall ps i c p,
  Forall2 R cs ps -> nth_error cs i = Some c -> nth_error ps i = Some p -> R c p.
Proof.
  induction cs as [|c0 cs IH]; intros ps i c p F Hc Hp; inversion F; subst.
  - destruct i; discriminate.
  - destruct i as [|i]; simpl in *.
    + injection Hc as ->. injection Hp as ->. auto.
    + eapply IH; eauto.
Qed.

Lemma forall2_len {A B} (R : A -> B -> Prop) cs ps : Forall2 R cs ps -> length cs = length ps.
Proof. induction 1; simpl; auto. Qed.

Lemma sum_upd (f : st -> nat) ps : forall i p p', nth_error ps i = Some p ->
  sum (map f (upd i p' ps)) + f p = sum (map f ps) + f p'.
Proof.
  induction ps as [|q ps IH]; intros i p p' H.
  - destruct i; discriminate.
  - destruct i as [|i]; simpl in *.
    + injection H as ->. lia.
    + specialize (IH i p p' H). lia.
Qed.

Lemma sum_nth_le (f : st -> nat) ps : forall i p, nth_error ps i = Some p -> f p <= sum (map f ps).
Proof.
  induction ps as [|q ps IH]; intros i p H.
  - destruct i; discriminate.
  - destruct i as [|i]; simpl in *.
    + injection H as ->. lia.
    + specialize (IH i p H). lia.
Qed.

(* the pair invariants do not mention the tokens *)
Lemma dinv_set_tok c p t : DInv c p -> DInv c (set_tok p t).
Proof. intros H. exact H. Qed.
Lemma linvO_set_tok p t : LInvO p -> LInvO (set_tok p t).
Proof. intros [A B C]. constructor; assumption. Qed.
Lemma held_set_tok p t : held (set_tok p t) = held p.
Proof. reflexivity. Qed.

Lemma gstep_inv g s ia s' : GInv g s -> gstep g s ia = Some s' -> GInv g s'.
Proof.
  intros [F T] H. destruct ia as [i a]. unfold gstep in H.
  destruct (nth_error (cfgs g) i) as [c|] eqn:Hc; [|discriminate].
  destruct (nth_error (pairs s) i) as [p|] eqn:Hp; [|discriminate].
  destruct (step (pcfg g c) (set_tok p (gtok s)) a) as [p'|] eqn:S; [|discriminate].
  injection H as <-. destruct (forall2_nth _ _ _ _ _ _ F Hc Hp) as [D O].
  split; simpl.
  - eapply forall2_upd; eauto. split.
    + eapply step_dinv; [|exact S]. apply dinv_set_tok. exact D.
    + eapply step_linvO; [|exact S]. apply linvO_set_tok. exact O.
  - assert (G : held (set_tok p (gtok s)) <= tokens (set_tok p (gtok s))).
    { rewrite held_set_tok. simpl. rewrite T. eapply sum_nth_le; eauto. }
    pose proof (step_tokens _ _ _ _ G S) as E. rewrite held_set_tok in E. simpl in E.
    pose proof (sum_upd held (pairs s) i p p' Hp). lia.
Qed.

Lemma grun_inv g l : forall s s', GInv g s -> grun g s l = Some s' -> GInv g s'.
Proof.
  induction l as [|a l IH]; simpl; intros s s' I H.
  - injection H as <-. exact I.
  - destruct (gstep g s a) as [s1|] eqn:E; [|discriminate]. apply (IH s1 s'); auto. eapply gstep_inv; eauto.
Qed.

(* ---- the data part of the property, for every pair ---- *)

(* a consumer that executed and finished has finalized exactly and completely the bytes its producer wrote *)
Theorem pairs_bytes g l s i c p :
  grun g (ginit g) l = Some s -> nth_error (cfgs g) i = Some c -> nth_error (pairs s) i = Some p ->
  skip c = false -> cp p = CDone -> outfile p = Some (payload c).
Proof.
  intros R Hc Hp K C. destruct (grun_inv g l _ _ (ginit_inv g) R) as [F _].
  destruct (forall2_nth _ _ _ _ _ _ F Hc Hp) as [[H1 [H2 [H3 [H4 _]]]] _].
  simpl in H4. rewrite K in H4. rewrite C in *. simpl in *. destruct (H3 eq_refl) as [Hb [Hr _]]. destruct H4 as [_ ->]. f_equal.
  rewrite Hb, app_nil_r in H2. rewrite Hr, app_nil_r in H1. congruence.
Qed.

(* re-run of a completed workflow: a consumer output that exists keeps its content in every reachable state *)
Theorem pairs_rerun_untouched g l s i c p :
  grun g (ginit g) l = Some s -> nth_error (cfgs g) i = Some c -> nth_error (pairs s) i = Some p ->
  skip c = true -> outfile p = Some (old c).
Proof.
  intros R Hc Hp K. destruct (grun_inv g l _ _ (ginit_inv g) R) as [F _].
  destruct (forall2_nth _ _ _ _ _ _ F Hc Hp) as [[_ [_ [_ [H4 _]]]] _]. simpl in H4. rewrite K in H4. apply H4.
Qed.

(* ---- progress: enough slots for every producer and its (executing) consumer ---- *)
Definition total_demand (g : gcfg) : nat := sum (map demand (cfgs g)).

Lemma demand_pcfg g c : demand (pcfg g c) = demand c.
Proof. reflexivity. Qed.

Lemma sum_held_lt g cs : forall ps i c p,
  Forall2 (PInv g) cs ps -> nth_error cs i = Some c -> nth_error ps i = Some p -> held p < demand c ->
  sum (map held ps) < sum (map demand cs).
Proof.
  assert (LE : forall cs ps, Forall2 (PInv g) cs ps -> sum (map held ps) <= sum (map demand cs)).
  { intros cs0 ps F. induction F as [|c p cs' ps' [D _] F IH]; simpl; auto.
    pose proof (held_le_demand _ _ D) as L. rewrite demand_pcfg in L. lia. }
  induction cs as [|c0 cs IH]; intros ps i c p F Hc Hp Hlt; inversion F; subst.
  - destruct i; discriminate.
  - destruct i as [|i]; simpl in *.
    + injection Hc as ->. injection Hp as ->. pose proof (LE _ _ H3). lia.
    + specialize (IH _ _ _ _ H3 Hc Hp Hlt). destruct H1 as [D _]. pose proof (held_le_demand _ _ D) as L. rewrite demand_pcfg in L. lia.
Qed.

Definition unfinished (p : st) : Prop := fifo p = true \/ pp p <> PDone \/ cp p <> CDone.

Theorem pairs_progress g l s i p :
  total_demand g <= gslots g -> Forall (fun c => 1 <= pipecap c) (cfgs g) ->
  grun g (ginit g) l = Some s -> nth_error (pairs s) i = Some p -> unfinished p ->
  exists a, gstep g s (i, a) <> None.
Proof.
  intros Hs Hcap R Hp Hun. destruct (grun_inv g l _ _ (ginit_inv g) R) as [F T].
  assert (Hc : exists c, nth_error (cfgs g) i = Some c).
  { pose proof (forall2_len _ _ _ F) as L. destruct (nth_error (cfgs g) i) as [c|] eqn:E; [eauto|].
    apply nth_error_None in E. assert (i < length (pairs s)) by (apply nth_error_Some; congruence). lia. }
  destruct Hc as [c Hc]. destruct (forall2_nth _ _ _ _ _ _ F Hc Hp) as [D O].
  assert (P : exists a, step (pcfg g c) (set_tok p (gtok s)) a <> None).
  { apply pair_progress.
    - apply linvO_set_tok. exact O.
    - simpl. rewrite Forall_forall in Hcap. apply Hcap. eapply nth_error_In; eauto.
    - simpl. intros W. pose proof (held_lt_demand _ _ D W) as Hlt. rewrite demand_pcfg in Hlt.
      pose proof (sum_held_lt g _ _ _ _ _ F Hc Hp Hlt). unfold total_demand in Hs. lia.
    - exact Hun. }
  destruct P as [a Pa]. exists a. unfold gstep. rewrite Hc, Hp.
  destruct (step (pcfg g c) (set_tok p (gtok s)) a); [discriminate|congruence].
Qed.

(* a run that cannot be extended has finished every pair: both tasks done, the pipe removed -- with pairs_terminate: every
   execution is finite and ends with everything done and no trace left *)
Theorem pairs_maximal_run_completes g l s :
  total_demand g <= gslots g -> Forall (fun c => 1 <= pipecap c) (cfgs g) ->
  grun g (ginit g) l = Some s -> (forall ia, gstep g s ia = None) ->
  forall i p, nth_error (pairs s) i = Some p -> pp p = PDone /\ cp p = CDone /\ fifo p = false.
Proof.
  intros Hs Hcap R Hmax i p Hp.
  assert (N : ~ unfinished p).
  { intros U. destruct (pairs_progress g l s i p Hs Hcap R Hp U) as [a Ha]. apply Ha, Hmax. }
  unfold unfinished in N.
  assert (P : pp p = PDone) by (destruct (pp p); auto; exfalso; apply N; right; left; discriminate).
  assert (C : cp p = CDone) by (destruct (cp p); auto; exfalso; apply N; right; right; discriminate).
  assert (F : fifo p = false) by (destruct (fifo p); auto; exfalso; apply N; left; reflexivity).
  auto.
Qed.

(* ---- termination: the sum of the pair measures strictly decreases ---- *)
Fixpoint gmeasure (cs : list cfg) (ps : list st) : nat :=
  match cs, ps with
  | c :: cr, p :: pr => measure c p + gmeasure cr pr
  | _, _ => 0
  end.

Lemma measure_pcfg g c p t : measure (pcfg g c) (set_tok p t) = measure c p.
Proof. reflexivity. Qed.
Lemma measure_pcfg' g c p : measure (pcfg g c) p = measure c p.
Proof. reflexivity. Qed.

Lemma gmeasure_upd cs : forall ps i c p p', nth_error cs i = Some c -> nth_error ps i = Some p ->
  measure c p' < measure c p -> gmeasure cs (upd i p' ps) < gmeasure cs ps.
Proof.
  induction cs as [|c0 cs IH]; intros ps i c p p' Hc Hp Hlt.
  - destruct i; discriminate.
  - destruct ps as [|q ps]; [destruct i; discriminate|]. destruct i as [|i]; simpl in *.
    + injection Hc as ->. injection Hp as ->. lia.
    + specialize (IH ps i c p p' Hc Hp Hlt). lia.
Qed.

Theorem pairs_terminate g s ia s' : gstep g s ia = Some s' -> gmeasure (cfgs g) (pairs s') < gmeasure (cfgs g) (pairs s).
Proof.
  intros H. destruct ia as [i a]. unfold gstep in H.
  destruct (nth_error (cfgs g) i) as [c|] eqn:Hc; [|discriminate].
  destruct (nth_error (pairs s) i) as [p|] eqn:Hp; [|discriminate].
  destruct (step (pcfg g c) (set_tok p (gtok s)) a) as [p'|] eqn:S; [|discriminate].
  injection H as <-. simpl. eapply gmeasure_upd; eauto.
  pose proof (stream_step_decreases _ _ _ _ S) as M. rewrite measure_pcfg, measure_pcfg' in M. exact M.
Qed.

(* ---- non-vacuity: two pairs (one executing, one skipped and draining) on three slots, interleaved to completion ---- *)
Definition g2 : gcfg :=
  {| cfgs := [ {| payload := [1;2;3]; pipecap := 2; slots := 0; skip := false; old := [] |};
               {| payload := [7;8]; pipecap := 1; slots := 0; skip := true; old := [9] |} ];
     gslots := 3 |}.
Definition sched2 : list (nat * act) :=
  [(0, AForward); (1, AForward); (0, PAcquire); (1, PAcquire); (0, CAcquire); (0, AOpenBoth); (1, AOpenBoth);
   (0, PWrite); (1, PWrite); (0, PWrite); (1, CRead); (0, CRead); (1, PWrite); (0, PWrite); (0, PExit); (1, PExit);
   (0, CRead); (1, CRead); (0, CRead); (1, CEof); (0, CEof); (0, PSetAudit); (0, CAudit); (0, CFinalize); (0, CRelease);
   (0, CDoneA); (0, PRelease); (1, PSetAudit); (1, PRelease); (0, PDoneA); (1, PDoneA); (0, ARemoveFifo); (1, ARemoveFifo)].
Example pairs_example :
  total_demand g2 <= gslots g2 /\
  match grun g2 (ginit g2) sched2 with
  | Some s => map outfile (pairs s) = [Some [1;2;3]; Some [9]] /\ map fifo (pairs s) = [false; false] /\ gtok s = 0
              /\ map cp (pairs s) = [CDone; CDone]
  | None => False
  end.
Proof. vm_compute. repeat split; auto. Qed.

(* the guard is necessary: two executing pairs on three slots can deadlock (both producers and one consumer hold a
   slot; the second consumer waits for a slot; its producer waits in open() for it) *)
Definition g3 : gcfg :=
  {| cfgs := [ {| payload := [1]; pipecap := 1; slots := 0; skip := false; old := [] |};
               {| payload := [2]; pipecap := 1; slots := 0; skip := false; old := [] |} ];
     gslots := 2 |}.
Definition gstuck (g : gcfg) (s : gst) : bool :=
  forallb (fun i => forallb (fun a => match gstep g s (i, a) with None => true | Some _ => false end) all_acts) (seq 0 (length (cfgs g))).
Example pairs_too_few_slots_refuted :
  match grun g3 (ginit g3) [(0, AForward); (1, AForward); (0, PAcquire); (1, PAcquire)] with
  | Some s => gstuck g3 s = true /\ map cp (pairs s) = [CWaitSlot; CWaitSlot]
  | None => False
  end.
Proof. vm_compute. split; reflexivity. Qed.
