(* C20 -- Audit report conversion is lossless.
   Model: Report -- records with an ID, a start time and upstream records; `extract` is extractAuditInfosByID (a map keyed by
   ID, later entries overwrite), `rsort` is sortAuditInfosByStartTime (records ordered by start time, ties by ID). *)
From Coq Require Import List Arith Lia Bool PeanoNat Permutation Sorted.
Import ListNotations.
From SP Require Import Report.

(* flattening lists exactly the IDs that occur anywhere in the tree -- whatever the depth, the fan-in, or the sharing of
   ancestors reached through several paths -- each exactly once *)
Theorem C20_flatten : forall (r : rec) (x : nat), In x (keys (extract r)) <-> In x (ids r).
Proof. exact Report.extract_ids. Qed.

Theorem C20_flatten_once : forall r : rec, NoDup (keys (extract r)).
Proof. exact Report.extract_nodup. Qed.

(* the report: every task of the lineage exactly once ... *)
Theorem C20_report_complete : forall (r : rec) (x : nat), In x (map rid (report r)) <-> In x (ids r).
Proof. exact Report.report_ids. Qed.

Theorem C20_report_once : forall r : rec, NoDup (map rid (report r)).
Proof. exact Report.report_nodup. Qed.

(* ... ordered by start time; equal (also zero) start times do not lose anybody: ties are ordered by ID *)
Theorem C20_report_sorted : forall r : rec, Sorted rle (report r).
Proof. exact Report.report_sorted. Qed.

(* the ordering as it was written before the repair (a map keyed by start time) loses a record and lists another twice
   when two records share a start time -- the defect D10, repaired in the source *)
Theorem C20_ties_refuted_before_repair :
  let a := Rec 1 5 100 [] in let b := Rec 2 5 200 [] in listing [a; b] = [Some b; Some b].
Proof. exact Report.C20_ties_refuted. Qed.

(* example: a diamond lineage with a shared ancestor (id 1) reached through two paths, and two source records with start time 0 *)
Definition ex_tree : rec :=
  Rec 9 30 0 [Rec 5 20 0 [Rec 1 10 0 [Rec 3 0 0 []; Rec 2 0 0 []]]; Rec 6 20 0 [Rec 1 10 0 [Rec 3 0 0 []; Rec 2 0 0 []]]].
Theorem C20_example : map rid (report ex_tree) = [2; 3; 1; 5; 6; 9].
Proof. vm_compute. reflexivity. Qed.

Print Assumptions C20_flatten.
Print Assumptions C20_flatten_once.
Print Assumptions C20_report_complete.
Print Assumptions C20_report_once.
Print Assumptions C20_report_sorted.
Print Assumptions C20_ties_refuted_before_repair.
Print Assumptions C20_example.
