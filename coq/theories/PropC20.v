(* C20 -- Audit report conversion is lossless.
   Model: Report -- records with an ID, a start time and upstream records; `extract` is extractAuditInfosByID (a map keyed by
   ID, later entries overwrite), `rsort` is sortAuditInfosByStartTime (records ordered by start time, ties by ID). *)
From Coq Require Import List Arith Lia Bool PeanoNat Permutation Sorted.
Import ListNotations.
From SP Require Import Report.
From SP Require Import Skel Gen ExpectedCones.
From SP Require Result TaskFS TInv Glue Cor TaskTop Bash.

(* flattening lists exactly the IDs that occur anywhere in the tree -- whatever the depth, the fan-in, or the sharing of
   ancestors reached through several paths -- each exactly once *)
Theorem C20_flatten : forall (r : rec) (x : nat), In x (keys (extract r)) <-> In x (ids r).
Proof. exact Report.extract_ids. Qed.

Theorem C20_flatten_once : forall r : rec, NoDup (keys (extract r)).
Proof. exact Report.extract_nodup. Qed.

(* the report: every task of the lineage exactly once ... *)
Theorem C20_report_complete : forall (r : rec) (x : nat), In x (map rid (report r)) <-> In x (ids r).
Proof. exact Report.report_ids. Qed.

Theorem C20_report_once : forall r : rec, NoDup (map rid (report r)).
Proof. exact Report.report_nodup. Qed.

(* ... ordered by start time; equal (also zero) start times do not lose anybody: ties are ordered by ID *)
Theorem C20_report_sorted : forall r : rec, Sorted rle (report r).
Proof. exact Report.report_sorted. Qed.

(* the ordering as it was written before the repair (a map keyed by start time) loses a record and lists another twice
   when two records share a start time -- the defect D10, repaired in the source *)
Theorem C20_ties_refuted_before_repair :
  let a := Rec 1 5 100 [] in let b := Rec 2 5 200 [] in listing [a; b] = [Some b; Some b].
Proof. exact Report.C20_ties_refuted. Qed.

(* the generated Bash script: one guarded command per listed task, in report order ("if an output exists: skip; else run").
   For every task list (any DAG, in an order in which no task reads what it or a later task writes -- the order of start
   times, since a task starts after its inputs were finalized), every selection of tasks that is closed under "is an input
   of" (the lineage of a file: Upstream holds the record of every input, recursively), run in a directory that holds only
   the source files: the script succeeds and every output of a listed task gets the content of the complete run *)
Theorem C20_bash_reproduces : forall (all : list Result.task) (keep : list bool), List.length keep = List.length all ->
  forall (f0 fR : Result.fs), Bash.closed all keep -> Result.wf all ->
  (forall t, In t all -> forall x, In x (Result.tout t) -> f0 x = None) ->
  Result.result all f0 = Some fR ->
  exists fS, Result.result (Bash.sub all keep) f0 = Some fS /\ forall x, Bash.kept_out all keep x -> fS x = fR x.
Proof. exact Bash.script_reproduces. Qed.

(* ... and the complete run it is compared with is any concurrent execution of the workflow (every schedule of the task /
   file-store machine): what the script writes is what the workflow left on disk *)
Theorem C20_bash_reproduces_run : forall (c : TaskFS.cfg) (f0 : Result.fs) (left0 : nat -> bool), TInv.wfc c ->
  forall fR, Glue.pre c f0 (TaskFS.nt c) = Some fR ->
  (forall t, In t (Glue.tl c (TaskFS.nt c)) -> forall x, In x (Result.tout t) -> f0 x = None) ->
  forall s, Cor.reachable c f0 left0 s -> (forall t, t < TaskFS.nt c -> TaskFS.is_done (TaskFS.pcs s t) = true) ->
  forall keep, List.length keep = List.length (Glue.tl c (TaskFS.nt c)) -> Bash.closed (Glue.tl c (TaskFS.nt c)) keep ->
  exists fS, Result.result (Bash.sub (Glue.tl c (TaskFS.nt c)) keep) f0 = Some fS /\
             forall t x, t < TaskFS.nt c -> nth t keep false = true -> In x (Result.tout (TaskFS.tk c t)) -> fS x = TaskFS.fin s x.
Proof.
  intros c f0 left0 WF fR HR CLEAN s R HD keep LEN CL.
  destruct (Bash.script_reproduces (Glue.tl c (TaskFS.nt c)) keep LEN f0 fR CL (TaskTop.wfc_wf c WF) CLEAN HR) as [fS [RS A]].
  exists fS. split; [exact RS|]. intros t x Ht Hk Hx.
  rewrite (TaskTop.complete_is_result c f0 left0 WF fR HR s R HD t x Ht Hx).
  apply A. exists t, (TaskFS.tk c t). split; [|split; assumption].
  unfold Glue.tl. rewrite nth_error_map. rewrite nth_error_nth' with (d := 0) by (rewrite seq_length; exact Ht).
  rewrite seq_nth by exact Ht. reflexivity.
Qed.

Theorem C20_bash_example :
  let f0 : Result.fs := fun x => if Nat.eqb x 0 then Some 5 else None in
  match Result.result [Bash.tA; Bash.tB; Bash.tE; Bash.tC; Bash.tD] f0,
        Result.result (Bash.sub [Bash.tA; Bash.tB; Bash.tE; Bash.tC; Bash.tD] [true; true; false; true; true]) f0 with
  | Some fR, Some fS => fR 4 = Some 30 /\ fS 4 = Some 30 /\ fS 9 = None /\ fR 9 = Some 105
  | _, _ => False
  end.
Proof. exact Bash.script_example. Qed.

(* example: a diamond lineage with a shared ancestor (id 1) reached through two paths, and two source records with start time 0 *)
Definition ex_tree : rec :=
  Rec 9 30 0 [Rec 5 20 0 [Rec 1 10 0 [Rec 3 0 0 []; Rec 2 0 0 []]]; Rec 6 20 0 [Rec 1 10 0 [Rec 3 0 0 []; Rec 2 0 0 []]]].
Theorem C20_example : map rid (report ex_tree) = [2; 3; 1; 5; 6; 9].
Proof. vm_compute. reflexivity. Qed.

(* T1, call cones: every function of scipipe that the functions this property's models stand for can reach (calls and
   function values, interface calls resolved to every implementation) is one the models were compared with -- a helper that
   is new to the cone, or a new call of an old one, changes a list (regenerated from /repo on every run; ExpectedCones.v
   holds the accepted ones) *)
Theorem C20_cone_conforms :
  strs_eqb cone_FileIP_AuditInfo exp_cone_FileIP_AuditInfo
  && strs_eqb cone_NewFileIP exp_cone_NewFileIP
  && strs_eqb cone_UnmarshalAuditInfoJSONFile exp_cone_UnmarshalAuditInfoJSONFile = true.
Proof. vm_compute. reflexivity. Qed.

Print Assumptions C20_flatten.
Print Assumptions C20_flatten_once.
Print Assumptions C20_report_complete.
Print Assumptions C20_report_once.
Print Assumptions C20_report_sorted.
Print Assumptions C20_ties_refuted_before_repair.
Print Assumptions C20_bash_reproduces.
Print Assumptions C20_bash_reproduces_run.
Print Assumptions C20_bash_example.
Print Assumptions C20_example.
Print Assumptions C20_cone_conforms.
