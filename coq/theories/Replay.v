(* History correspondence engine (tie T3-replay): an observed event log of the real library is turned (by the harness)
   into a script over the actions of one of the transition systems; the engine below decides, using nothing but the
   system's own [step], whether the system has an execution that explains the log, and returns that execution.

   A script line is
     Do a        -- an event whose position in the log is a valid linearisation point: [a] must be enabled now;
     Begin i a   -- a blocking operation (channel send / receive) was started: [a] happens somewhere before [End i];
     End i       -- the operation has returned: [a] must have happened by now;
     Chk t p     -- an observation about the state ([p] must hold now; [t] only labels the line in error reports).
   Pending operations are fired as early as the system allows (after every state change, oldest first).  This is
   complete for operations that do not compete with one another (one sender and one receiver per channel), which
   is how the harness uses it; it is sound for every script: see [replay_sound]. *)
From Coq Require Import List Arith Bool.
Import ListNotations.

Section Replay.
Variables (St A : Type).
Variable step : St -> A -> option St.

Inductive line :=
| Do (a : A)
| Begin (id : nat) (a : A)
| End (id : nat)
| Chk (tag : nat) (p : St -> bool).

Fixpoint run (s : St) (l : list A) : option St :=
  match l with
  | [] => Some s
  | a :: r => match step s a with Some s' => run s' r | None => None end
  end.

(* fire the oldest enabled pending operation *)
Fixpoint fire (s : St) (pend : list (nat * A)) : option (St * A * list (nat * A)) :=
  match pend with
  | [] => None
  | (i, a) :: r =>
    match step s a with
    | Some s' => Some (s', a, r)
    | None => match fire s r with
              | Some (s', b, r') => Some (s', b, (i, a) :: r')
              | None => None
              end
    end
  end.

(* ... until none is enabled; [acc] is the schedule so far, newest first *)
Fixpoint flush (fuel : nat) (s : St) (pend : list (nat * A)) (acc : list A) : St * list (nat * A) * list A :=
  match fuel with
  | 0 => (s, pend, acc)
  | S f => match fire s pend with
           | Some (s', a, p') => flush f s' p' (a :: acc)
           | None => (s, pend, acc)
           end
  end.

Definition is_pending (id : nat) (pend : list (nat * A)) : bool := existsb (fun x => Nat.eqb (fst x) id) pend.

Inductive verdict :=
| Accepted (s : St) (sched : list A) (still_pending : list nat)
| Rejected (lineno : nat) (why : nat) (s : St).   (* why: 0 = Do not enabled, 1 = operation not linearisable before its End, 2 = Chk failed *)

Fixpoint replay_from (n : nat) (s : St) (pend : list (nat * A)) (acc : list A) (script : list line) : verdict :=
  match script with
  | [] => Accepted s (rev acc) (map fst pend)
  | Do a :: r =>
    match step s a with
    | Some s' => let '(s2, p2, acc2) := flush (length pend) s' pend (a :: acc) in replay_from (S n) s2 p2 acc2 r
    | None => Rejected n 0 s
    end
  | Begin i a :: r =>
    let '(s2, p2, acc2) := flush (S (length pend)) s (pend ++ [(i, a)]) acc in replay_from (S n) s2 p2 acc2 r
  | End i :: r =>
    if is_pending i pend then Rejected n 1 s else replay_from (S n) s pend acc r
  | Chk t p :: r =>
    if p s then replay_from (S n) s pend acc r else Rejected n 2 s
  end.

Definition replay (s0 : St) (script : list line) : verdict := replay_from 0 s0 [] [] script.

(* ---- soundness: an accepted script comes with an execution of the system that ends in the reported state ---- *)

Lemma run_app s l1 l2 s1 : run s l1 = Some s1 -> run s (l1 ++ l2) = run s1 l2.
Proof.
  revert s. induction l1 as [|a l1 IH]; simpl; intros s H.
  - now inversion H.
  - destruct (step s a); [auto|discriminate].
Qed.

Lemma fire_step s pend s' a p' : fire s pend = Some (s', a, p') -> step s a = Some s'.
Proof.
  revert s' a p'. induction pend as [|[i b] r IH]; simpl; intros s' a p' H; [discriminate|].
  destruct (step s b) as [s1|] eqn:E.
  - inversion H; subst. exact E.
  - destruct (fire s r) as [[[s2 c] r2]|]; [|discriminate]. inversion H; subst. eapply IH; reflexivity.
Qed.

Lemma flush_sound fuel : forall s0 s pend acc s' p' acc',
  run s0 (rev acc) = Some s -> flush fuel s pend acc = (s', p', acc') -> run s0 (rev acc') = Some s'.
Proof.
  induction fuel as [|f IH]; simpl; intros s0 s pend acc s' p' acc' H E.
  - inversion E; subst; exact H.
  - destruct (fire s pend) as [[[s1 a] p1]|] eqn:F.
    + eapply IH; [|exact E]. simpl. rewrite (run_app _ _ _ _ H). simpl. now rewrite (fire_step _ _ _ _ _ F).
    + inversion E; subst; exact H.
Qed.

Lemma replay_from_sound script : forall s0 n s pend acc s' sched stp,
  run s0 (rev acc) = Some s -> replay_from n s pend acc script = Accepted s' sched stp -> run s0 sched = Some s'.
Proof.
  induction script as [|ln r IH]; cbn [replay_from]; intros s0 n s pend acc s' sched stp H E.
  - inversion E; subst; exact H.
  - destruct ln as [a|i a|i|t p].
    + destruct (step s a) as [s1|] eqn:Ea; [|discriminate].
      destruct (flush (length pend) s1 pend (a :: acc)) as [[s2 p2] acc2] eqn:F.
      eapply IH; [|exact E]. eapply flush_sound; [|exact F]. simpl. rewrite (run_app _ _ _ _ H). simpl. now rewrite Ea.
    + destruct (flush (S (length pend)) s (pend ++ [(i, a)]) acc) as [[s2 p2] acc2] eqn:F.
      eapply IH; [|exact E]. eapply flush_sound; [exact H|exact F].
    + destruct (is_pending i pend); [discriminate|]. eapply IH; eauto.
    + destruct (p s); [|discriminate]. eapply IH; eauto.
Qed.

Theorem replay_sound s0 script s' sched stp :
  replay s0 script = Accepted s' sched stp -> run s0 sched = Some s'.
Proof. intros E. eapply replay_from_sound; [|exact E]. reflexivity. Qed.

End Replay.

Arguments Do {St A} a.
Arguments Begin {St A} id a.
Arguments End {St A} id.
Arguments Chk {St A} tag p.
Arguments Accepted {St A} s sched still_pending.
Arguments Rejected {St A} lineno why s.
