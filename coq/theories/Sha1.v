From Coq Require Import List NArith Ascii String Lia.
Import ListNotations.
Local Open Scope N_scope.

Definition w32 (x : N) : N := N.land x 4294967295.
Definition rotl (n : N) (x : N) : N := w32 (N.lor (N.shiftl x n) (N.shiftr (w32 x) (32 - n))).
Definition add32 (a b : N) : N := w32 (a + b).
Definition not32 (x : N) : N := N.lxor (w32 x) 4294967295.

Fixpoint bytes_to_words (l : list N) : list N :=
  match l with
  | a :: b :: c :: d :: r => (N.shiftl a 24 + N.shiftl b 16 + N.shiftl c 8 + d) :: bytes_to_words r
  | _ => []
  end.

Definition be_bytes (nbytes : nat) (x : N) : list N :=
  rev (map (fun i => N.land (N.shiftr x (8 * N.of_nat i)) 255) (seq 0 nbytes)).

Definition pad (msg : list N) : list N :=
  let len := N.of_nat (List.length msg) in
  let m1 := msg ++ [128] in
  let k := Nat.modulo (64 + 56 - Nat.modulo (List.length m1) 64) 64 in
  m1 ++ repeat 0 k ++ be_bytes 8 (8 * len).

Fixpoint chunks (fuel : nat) (l : list N) : list (list N) :=
  match fuel with
  | O => []
  | S f => match l with [] => [] | _ => firstn 16 l :: chunks f (skipn 16 l) end
  end.

(* extend 16 words to 80: keep window as reversed list *)
Fixpoint extend (n : nat) (revw : list N) : list N :=
  match n with
  | O => revw
  | S n' =>
    let g i := nth i revw 0 in
    extend n' (rotl 1 (N.lxor (N.lxor (g 2%nat) (g 7%nat)) (N.lxor (g 13%nat) (g 15%nat))) :: revw)
  end.

Definition f_k (t : nat) (b c d : N) : N * N :=
  if Nat.ltb t 20 then (N.lor (N.land b c) (N.land (not32 b) d), 1518500249)
  else if Nat.ltb t 40 then (N.lxor (N.lxor b c) d, 1859775393)
  else if Nat.ltb t 60 then (N.lor (N.lor (N.land b c) (N.land b d)) (N.land c d), 2400959708)
  else (N.lxor (N.lxor b c) d, 3395469782).

Definition st := (N * N * N * N * N)%type.

Definition round (s : st) (tw : nat * N) : st :=
  let '(a,b,c,d,e) := s in
  let '(t,w) := tw in
  let '(f,k) := f_k t b c d in
  let tmp := add32 (add32 (add32 (add32 (rotl 5 a) f) e) k) w in
  (tmp, a, rotl 30 b, c, d).

Definition process (h : st) (chunk : list N) : st :=
  let ws := rev (extend 64 (rev chunk)) in
  let '(a,b,c,d,e) := fold_left round (combine (seq 0 80) ws) h in
  let '(h0,h1,h2,h3,h4) := h in
  (add32 h0 a, add32 h1 b, add32 h2 c, add32 h3 d, add32 h4 e).

Definition sha1 (msg : list N) : list N :=
  let p := pad msg in
  let ws := bytes_to_words p in
  let '(h0,h1,h2,h3,h4) := fold_left process (chunks (List.length ws) ws)
      (1732584193, 4023233417, 2562383102, 271733878, 3285377520) in
  be_bytes 4 h0 ++ be_bytes 4 h1 ++ be_bytes 4 h2 ++ be_bytes 4 h3 ++ be_bytes 4 h4.

Definition hexd (n : N) : ascii :=
  if n <? 10 then ascii_of_N (48 + n) else ascii_of_N (87 + n).
Definition hex (l : list N) : string :=
  string_of_list_ascii (flat_map (fun b => [hexd (b / 16); hexd (b mod 16)]) l).
Definition bytes_of_string (s : string) : list N := map N_of_ascii (list_ascii_of_string s).

Time Eval vm_compute in hex (sha1 (bytes_of_string "")).
Time Eval vm_compute in hex (sha1 (bytes_of_string "abc")).
Time Eval vm_compute in hex (sha1 (bytes_of_string "test_taskinfile.txtinfile2.txtp1_p1valp2_p2val")).
Time Eval vm_compute in hex (sha1 (bytes_of_string "ab")).
