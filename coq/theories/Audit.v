(* Audit records (C10 / C11): the in-memory construction of provenance -- every task snapshots the records its inputs carry
   at that moment and stores the result on its outputs -- equals the recursive lineage of the task DAG. *)
From Coq Require Import List Arith Lia Bool PeanoNat.
Import ListNotations.

Section Lineage.
Variable P : Type.                     (* what a record says about its own task: process, command, parameters, out files *)

Inductive tree := Node (payload : option P) (up : list (nat * tree)).   (* None: a file no task of this history produced *)
Definition empty : tree := Node None [].

Record atask := { at_payload : P; at_ins : list nat; at_outs : list nat }.

(* the store: path -> record, first match wins *)
Definition store := list (nat * tree).
Fixpoint get (s : store) (x : nat) : tree :=
  match s with [] => empty | (k, v) :: r => if Nat.eqb x k then v else get r x end.

(* writeAuditLogs: Upstream[in] := the record the in-IP carries now; every out-IP gets the new record *)
Definition exec (s : store) (t : atask) : store :=
  let r := Node (Some (at_payload t)) (map (fun i => (i, get s i)) (at_ins t)) in
  map (fun o => (o, r)) (at_outs t) ++ s.
Definition build (ts : list atask) : store := fold_left exec ts [].

(* the reference: the lineage of a path, by recursion over the history (most recent task first) *)
Fixpoint lin (hist : list atask) : nat -> tree :=
  match hist with
  | [] => fun _ => empty
  | t :: earlier =>
    let f := lin earlier in
    fun x => if existsb (Nat.eqb x) (at_outs t)
             then Node (Some (at_payload t)) (map (fun i => (i, f i)) (at_ins t))
             else f x
  end.

Lemma get_app_outs outs r s x :
  get (map (fun o => (o, r)) outs ++ s) x = if existsb (Nat.eqb x) outs then r else get s x.
Proof.
  induction outs as [|o outs IH]; simpl; auto.
  destruct (Nat.eqb x o); simpl; auto.
Qed.

Lemma exec_lin s done t : (forall x, get s x = lin done x) -> forall x, get (exec s t) x = lin (t :: done) x.
Proof.
  intros H x. unfold exec. rewrite get_app_outs. simpl.
  destruct (existsb (Nat.eqb x) (at_outs t)); [|apply H].
  f_equal. apply map_ext. intros i. now rewrite H.
Qed.

Lemma build_from ts : forall s done, (forall x, get s x = lin done x) ->
  forall x, get (fold_left exec ts s) x = lin (rev ts ++ done) x.
Proof.
  induction ts as [|t ts IH]; intros s done H x; simpl; [apply H|].
  rewrite <- app_assoc. simpl. apply IH. apply exec_lin. exact H.
Qed.

(* for every history of tasks: the record found on a path after the run is the full lineage of that path, recursively
   back to the files no task produced *)
Theorem build_is_lineage ts x : get (build ts) x = lin (rev ts) x.
Proof.
  unfold build. rewrite <- (app_nil_r (rev ts)). apply build_from. intros; reflexivity.
Qed.

(* resumed runs: running a prefix, keeping the store, then running the rest gives the same records as one run *)
Theorem build_resume ts1 ts2 x : get (fold_left exec ts2 (build ts1)) x = get (build (ts1 ++ ts2)) x.
Proof. unfold build. now rewrite fold_left_app. Qed.

(* ---------------- order independence: what a resumed or re-ordered run records ---------------- *)

(* histories are written most recent task first (as `lin` takes them) *)
Definition outs_has (t : atask) (x : nat) : bool := existsb (Nat.eqb x) (at_outs t).
Definition produced (h : list atask) (x : nat) : Prop := exists t, In t h /\ outs_has t x = true.

(* well ordered: no task reads what it writes; a path is written by one task only; nobody reads a path before it is written *)
Fixpoint WO (h : list atask) : Prop :=
  match h with
  | [] => True
  | t :: earlier =>
    (forall i, In i (at_ins t) -> outs_has t i = false) /\
    (forall o, outs_has t o = true -> ~ produced earlier o) /\
    (forall u, In u earlier -> forall i, In i (at_ins u) -> outs_has t i = false) /\
    WO earlier
  end.

Fixpoint producer (h : list atask) (x : nat) : option atask :=
  match h with [] => None | t :: e => if outs_has t x then Some t else producer e x end.

Lemma producer_in h x t : producer h x = Some t -> In t h /\ outs_has t x = true.
Proof.
  induction h as [|u e IH]; simpl; [discriminate|].
  destruct (outs_has u x) eqn:E; intros H.
  - injection H as <-. auto.
  - destruct (IH H). auto.
Qed.

Lemma producer_none h x : producer h x = None -> ~ produced h x.
Proof.
  induction h as [|u e IH]; simpl; intros H [t [Hin Ho]]; [destruct Hin|].
  destruct (outs_has u x) eqn:E; [discriminate|].
  destruct Hin as [<-|Hin]; [congruence|]. apply (IH H). exists t. auto.
Qed.

Lemma producer_some h x : produced h x -> exists t, producer h x = Some t.
Proof. intros HP. destruct (producer h x) eqn:E; eauto. exfalso. eapply producer_none; eauto. Qed.

(* under WO, the record of a path does not depend on tasks that come later and do not write it *)
Lemma lin_fixpoint h : WO h -> forall x,
  lin h x = match producer h x with
            | Some t => Node (Some (at_payload t)) (map (fun i => (i, lin h i)) (at_ins t))
            | None => empty
            end.
Proof.
  induction h as [|t e IH]; intros W x; simpl; [reflexivity|].
  destruct W as [W1 [W2 [W3 W4]]]. fold (outs_has t x).
  destruct (outs_has t x) eqn:E.
  - f_equal. apply map_ext_in. intros i Hi. fold (outs_has t i). now rewrite (W1 i Hi).
  - rewrite (IH W4 x). destruct (producer e x) as [u|] eqn:Pe; [|reflexivity].
    f_equal. apply map_ext_in. intros i Hi. fold (outs_has t i).
    destruct (producer_in e x u Pe) as [Hu _]. now rewrite (W3 u Hu i Hi).
Qed.

(* the producer of a path is unique among the tasks of a well-ordered history *)
Lemma producer_unique h : WO h -> forall x t, In t h -> outs_has t x = true -> producer h x = Some t.
Proof.
  induction h as [|u e IH]; intros W x t Hin Ho; [destruct Hin|]. simpl.
  destruct W as [_ [W2 [_ W4]]].
  destruct (outs_has u x) eqn:E.
  - destruct Hin as [->|Hin]; [reflexivity|]. exfalso. apply (W2 x E). exists t. auto.
  - destruct Hin as [<-|Hin]; [congruence|]. apply IH; auto.
Qed.

(* a measure that decreases from a path to the inputs of its producer *)
Fixpoint depth (h : list atask) (x : nat) : nat :=
  match h with [] => 0 | t :: e => if outs_has t x then S (length e) else depth e x end.

Lemma depth_le h x : depth h x <= length h.
Proof. induction h as [|t e IH]; simpl; auto. destruct (outs_has t x); lia. Qed.

Lemma depth_lt h : WO h -> forall x t i, producer h x = Some t -> In i (at_ins t) -> depth h i < depth h x.
Proof.
  induction h as [|u e IH]; intros W x t i Pr Hi; simpl in *; [discriminate|].
  destruct W as [W1 [W2 [W3 W4]]].
  destruct (outs_has u x) eqn:E.
  - injection Pr as <-. rewrite (W1 i Hi). pose proof (depth_le e i). lia.
  - destruct (producer_in e x t Pr) as [Ht _]. rewrite (W3 t Ht i Hi). eapply IH; eauto.
Qed.

(* two well-ordered histories made of the same tasks -- e.g. an uninterrupted run and a run that was interrupted,
   resumed, and executed its tasks in another order -- record the same lineage on every path *)
Theorem lineage_order_independent h1 h2 :
  WO h1 -> WO h2 -> (forall t, In t h1 <-> In t h2) -> forall x, lin h1 x = lin h2 x.
Proof.
  intros W1 W2 Same x.
  remember (depth h1 x) as n eqn:En. revert x En.
  induction n as [n IH] using lt_wf_ind. intros x En.
  rewrite (lin_fixpoint h1 W1 x), (lin_fixpoint h2 W2 x).
  destruct (producer h1 x) as [t|] eqn:P1.
  - destruct (producer_in h1 x t P1) as [Hin Ho].
    rewrite (producer_unique h2 W2 x t (proj1 (Same t) Hin) Ho).
    f_equal. apply map_ext_in. intros i Hi. f_equal.
    apply (IH (depth h1 i)); auto. subst n. eapply depth_lt; eauto.
  - destruct (producer h2 x) as [t|] eqn:P2; [|reflexivity].
    exfalso. destruct (producer_in h2 x t P2) as [Hin Ho].
    apply (producer_none h1 x P1). exists t. split; [apply Same; exact Hin|exact Ho].
Qed.

End Lineage.
