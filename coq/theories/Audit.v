(* Audit records (C10 / C11): the in-memory construction of provenance -- every task snapshots the records its inputs carry
   at that moment and stores the result on its outputs -- equals the recursive lineage of the task DAG. *)
From Coq Require Import List Arith Lia Bool PeanoNat.
Import ListNotations.

Section Lineage.
Variable P : Type.                     (* what a record says about its own task: process, command, parameters, out files *)

Inductive tree := Node (payload : option P) (up : list (nat * tree)).   (* None: a file no task of this history produced *)
Definition empty : tree := Node None [].

Record atask := { at_payload : P; at_ins : list nat; at_outs : list nat }.

(* the store: path -> record, first match wins *)
Definition store := list (nat * tree).
Fixpoint get (s : store) (x : nat) : tree :=
  match s with [] => empty | (k, v) :: r => if Nat.eqb x k then v else get r x end.

(* writeAuditLogs: Upstream[in] := the record the in-IP carries now; every out-IP gets the new record *)
Definition exec (s : store) (t : atask) : store :=
  let r := Node (Some (at_payload t)) (map (fun i => (i, get s i)) (at_ins t)) in
  map (fun o => (o, r)) (at_outs t) ++ s.
Definition build (ts : list atask) : store := fold_left exec ts [].

(* the reference: the lineage of a path, by recursion over the history (most recent task first) *)
Fixpoint lin (hist : list atask) : nat -> tree :=
  match hist with
  | [] => fun _ => empty
  | t :: earlier =>
    let f := lin earlier in
    fun x => if existsb (Nat.eqb x) (at_outs t)
             then Node (Some (at_payload t)) (map (fun i => (i, f i)) (at_ins t))
             else f x
  end.

Lemma get_app_outs outs r s x :
  get (map (fun o => (o, r)) outs ++ s) x = if existsb (Nat.eqb x) outs then r else get s x.
Proof.
  induction outs as [|o outs IH]; simpl; auto.
  destruct (Nat.eqb x o); simpl; auto.
Qed.

Lemma exec_lin s done t : (forall x, get s x = lin done x) -> forall x, get (exec s t) x = lin (t :: done) x.
Proof.
  intros H x. unfold exec. rewrite get_app_outs. simpl.
  destruct (existsb (Nat.eqb x) (at_outs t)); [|apply H].
  f_equal. apply map_ext. intros i. now rewrite H.
Qed.

Lemma build_from ts : forall s done, (forall x, get s x = lin done x) ->
  forall x, get (fold_left exec ts s) x = lin (rev ts ++ done) x.
Proof.
  induction ts as [|t ts IH]; intros s done H x; simpl; [apply H|].
  rewrite <- app_assoc. simpl. apply IH. apply exec_lin. exact H.
Qed.

(* for every history of tasks: the record found on a path after the run is the full lineage of that path, recursively
   back to the files no task produced *)
Theorem build_is_lineage ts x : get (build ts) x = lin (rev ts) x.
Proof.
  unfold build. rewrite <- (app_nil_r (rev ts)). apply build_from. intros; reflexivity.
Qed.

(* resumed runs: running a prefix, keeping the store, then running the rest gives the same records as one run *)
Theorem build_resume ts1 ts2 x : get (fold_left exec ts2 (build ts1)) x = get (build (ts1 ++ ts2)) x.
Proof. unfold build. now rewrite fold_left_app. Qed.

End Lineage.
