(* A process's queue of started tasks and the slots (C07, work conservation across the queue).

   Process.Run spawns a task as soon as it is formed and keeps it in a FIFO until every earlier task has been forwarded; a task
   holds a slot only between acquiring it and finishing.  One process, one-core tasks, K slots.  `capped = false` is the code;
   `capped = true` is a Run loop that stops accepting new tasks while the FIFO is as long as the number of slots. *)
From Coq Require Import List Arith Lia Bool PeanoNat.
Import ListNotations.

Inductive tst := Spawned | Running | Finished.     (* of a task in the FIFO: waiting for a slot / holding one / done, not yet forwarded *)

Record st := { todo : nat;            (* formed tasks not yet spawned *)
               fifo : list tst;       (* spawned and not yet forwarded, oldest first *)
               free : nat }.          (* free slots *)

Inductive act := Spawn | Acquire (i : nat) | Finish (i : nat) | Forward.

Fixpoint set_nth (l : list tst) (i : nat) (x : tst) : list tst :=
  match l, i with
  | [], _ => []
  | _ :: r, 0 => x :: r
  | y :: r, S j => y :: set_nth r j x
  end.

Definition step (K : nat) (capped : bool) (s : st) (a : act) : option st :=
  match a with
  | Spawn => match todo s with
             | S n => if capped && Nat.leb K (length (fifo s)) then None
                      else Some {| todo := n; fifo := fifo s ++ [Spawned]; free := free s |}
             | 0 => None end
  | Acquire i => match nth_error (fifo s) i, free s with
                 | Some Spawned, S f => Some {| todo := todo s; fifo := set_nth (fifo s) i Running; free := f |}
                 | _, _ => None end
  | Finish i => match nth_error (fifo s) i with
                | Some Running => Some {| todo := todo s; fifo := set_nth (fifo s) i Finished; free := S (free s) |}
                | _ => None end
  | Forward => match fifo s with Finished :: r => Some {| todo := todo s; fifo := r; free := free s |} | _ => None end
  end.

(* work conservation: a formed task and a free slot never wait for each other -- whatever the FIFO holds *)
Theorem uncapped_work_conserving K s : 0 < todo s -> 0 < free s ->
  exists s1 s2, step K false s Spawn = Some s1 /\ step K false s1 (Acquire (length (fifo s))) = Some s2 /\ free s2 = free s - 1.
Proof.
  intros T F. destruct s as [t q f]; simpl in *. destruct t as [|n]; [lia|]. destruct f as [|f']; [lia|].
  eexists. eexists. split; [reflexivity|]. simpl.
  assert (E : nth_error (q ++ [Spawned]) (length q) = Some Spawned).
  { rewrite nth_error_app2 by lia. rewrite Nat.sub_diag. reflexivity. }
  rewrite E. split; [reflexivity|simpl; lia].
Qed.

(* with the cap: two slots, the oldest task still running, the one behind it finished (its slot is free again), a third task
   formed -- it is not spawned; the free slot idles until the oldest task ends *)
Theorem capped_idles_a_slot :
  let s := {| todo := 1; fifo := [Running; Finished]; free := 1 |} in
  step 2 true s Spawn = None /\ step 2 true s Forward = None /\ (forall i, step 2 true s (Acquire i) = None) /\
  0 < todo s /\ 0 < free s.
Proof.
  simpl. repeat split; try lia. intros i. destruct i as [|[|[|i]]]; reflexivity.
Qed.

(* and that state is reached from the start: three one-core tasks on two slots, the second one quick *)
Example capped_state_reachable :
  let s0 := {| todo := 3; fifo := []; free := 2 |} in
  exists s, fold_left (fun o a => match o with Some s => step 2 true s a | None => None end)
                      [Spawn; Spawn; Acquire 0; Acquire 1; Finish 1] (Some s0) = Some s
            /\ s = {| todo := 1; fifo := [Running; Finished]; free := 1 |}.
Proof. eexists. split; reflexivity. Qed.
