(* C15_command: on a rendered pattern whose literals are brace free and whose placeholder values are brace free, the
   iterated global strings.Replace of formatCommand computes exactly the simultaneous substitution -- any number of
   occurrences of the same placeholder included. *)
From Coq Require Import List Ascii String Arith Lia Bool.
Import ListNotations.
From SP Require Import Str PathLex Format FormatParse.
Notation length := List.length.

(* ---------- the pure core: a fold of global replacements over brace-free pieces ---------- *)
Section Subst.
Variable v : str -> str.                           (* placeholder body -> replacement *)

Definition mem (b : str) (L : list str) : bool := existsb (Str.str_eqb b) L.

Definition subst_all (L : list str) (p : Str.piece) : Str.piece :=
  match p with
  | Str.Txt u => Str.Txt u
  | Str.Ph b => if mem b L then Str.Txt (v b) else Str.Ph b
  end.

Lemma str_eqb_true a b : Str.str_eqb a b = true <-> a = b.
Proof. unfold Str.str_eqb. destruct (list_eq_dec ascii_dec a b); split; congruence. Qed.
Lemma str_eqb_sym a b : Str.str_eqb a b = Str.str_eqb b a.
Proof. unfold Str.str_eqb. destruct (list_eq_dec ascii_dec a b), (list_eq_dec ascii_dec b a); congruence. Qed.

Lemma subst1_ok b ps : brace_free (v b) -> Forall Str.piece_ok ps -> Forall Str.piece_ok (map (subst1 b (v b)) ps).
Proof.
  intros Hv H. induction H as [|p ps Hp _ IH]; simpl; constructor; auto.
  destruct p as [u|b']; simpl; auto. destruct (Str.str_eqb b b'); simpl; auto.
Qed.

Lemma subst_step b L p : subst_all L (subst1 b (v b) p) = subst_all (b :: L) p.
Proof.
  destruct p as [u|b']; simpl; auto. unfold mem. simpl.
  destruct (Str.str_eqb b b') eqn:E.
  - simpl. apply str_eqb_true in E. subst b'. rewrite (proj2 (str_eqb_true b b) eq_refl). reflexivity.
  - simpl. rewrite str_eqb_sym, E. reflexivity.
Qed.

Theorem fold_replace (L : list str) : forall qs,
  Forall Str.piece_ok qs -> (forall b, In b L -> brace_free b /\ brace_free (v b)) ->
  fold_left (fun c b => replace_all (ph b) (v b) c) L (Str.flat qs) = Str.flat (map (subst_all L) qs).
Proof.
  induction L as [|b L IH]; intros qs Hq HL; simpl.
  - f_equal. rewrite <- (map_id qs) at 1. apply map_ext. intros [u|b']; reflexivity.
  - destruct (HL b (or_introl eq_refl)) as [Hb Hvb].
    rewrite (replace_all_pieces b (v b) qs Hb Hq).
    rewrite IH; [|apply subst1_ok; auto|intros b' Hb'; apply HL; right; exact Hb'].
    rewrite map_map. f_equal. apply map_ext. intros p. apply subst_step.
Qed.
End Subst.

(* ---------- from FormatParse pieces (text | {kind:rest}) to Str pieces (text | {body}) ---------- *)
Definition body_of (k rest : str) : str := k ++ colon :: rest.
Definition conv (p : FormatParse.piece) : Str.piece :=
  match p with FormatParse.Txt u => Str.Txt u | FormatParse.PhK k rest => Str.Ph (body_of k rest) end.

Lemma render1_ph k rest : render1 k rest = ph (body_of k rest).
Proof. unfold render1, ph, body_of. change lbr with lb. change rbr with rb. rewrite <- app_assoc. reflexivity. Qed.

Lemma flat_conv ps : FormatParse.flat ps = Str.flat (map conv ps).
Proof.
  unfold FormatParse.flat, Str.flat. induction ps as [|p ps IH]; simpl; auto.
  rewrite IH. f_equal. destruct p as [u|k rest]; simpl; auto. apply render1_ph.
Qed.

(* the guard of the theorem: literals without braces; placeholders of a known kind with a non-empty brace-free body *)
Definition piece_ok2 (p : FormatParse.piece) : Prop :=
  match p with
  | FormatParse.Txt u => brace_free u
  | FormatParse.PhK k rest => In k kinds /\ rest <> [] /\ brace_free rest
  end.

Lemma kinds_brace_free k : In k kinds -> brace_free k.
Proof.
  unfold kinds. simpl. intros H.
  repeat (destruct H as [<-|H]; [split; intros C; simpl in C; repeat (destruct C as [C|C]; [discriminate|]); exact C|]).
  destruct H.
Qed.

Lemma brace_free_app a b : brace_free a -> brace_free b -> brace_free (a ++ b).
Proof. intros [A1 A2] [B1 B2]. split; intros C; apply in_app_or in C; tauto. Qed.

Lemma body_brace_free k rest : In k kinds -> brace_free rest -> brace_free (body_of k rest).
Proof.
  intros Hk Hr. unfold body_of. apply brace_free_app; [apply kinds_brace_free; auto|].
  destruct Hr as [R1 R2]. split; intros [C|C]; try discriminate; tauto.
Qed.

Lemma ok2_ok ps : Forall piece_ok2 ps -> Forall FormatParse.piece_ok ps /\ Forall Str.piece_ok (map conv ps).
Proof.
  intros H. induction H as [|p ps Hp _ [IH1 IH2]]; simpl; split; try constructor; auto.
  - destruct p as [u|k rest]; simpl in *.
    + destruct Hp. exact H.
    + destruct Hp as [Hk [Hr [B1 B2]]]. repeat split; auto. intros c Hc. unfold nobrace.
      destruct (Ascii.eqb_spec c lbr) as [->|]; [tauto|]. destruct (Ascii.eqb_spec c rbr) as [->|]; [tauto|]. reflexivity.
  - destruct p as [u|k rest]; simpl in *; auto. destruct Hp as [Hk [_ Hr]]. apply body_brace_free; auto.
Qed.

(* the monadic fold of formatCommand, when every placeholder has a value, is the pure fold *)
Lemma format_fold infos e (ms : list (str * str * str)) (val : str -> str -> str) :
  (forall w k r, In (w, k, r) ms -> replacement infos e k r = Ok (val k r)) ->
  forall c,
  fold_left (fun acc m =>
    match acc with
    | Fail => Fail
    | Ok c => let '(whole, kind, rest) := m in
              match replacement infos e kind rest with
              | Ok r => Ok (replace_all whole r c)
              | Fail => Fail end
    end) ms (Ok c)
  = Ok (fold_left (fun c m => let '(whole, kind, rest) := m in replace_all whole (val kind rest) c) ms c).
Proof.
  induction ms as [|[[w k] r] ms IH]; intros H c; simpl; [reflexivity|].
  rewrite (H w k r (or_introl eq_refl)). apply IH. intros w' k' r' Hin. apply (H w' k' r'). right. exact Hin.
Qed.

(* the body text determines kind and rest: no kind contains a colon *)
Lemma body_of_inj k1 r1 k2 r2 : In k1 kinds -> In k2 kinds -> body_of k1 r1 = body_of k2 r2 -> k1 = k2 /\ r1 = r2.
Proof.
  unfold kinds, body_of. simpl. intros H1 H2 E.
  repeat (destruct H1 as [<-|H1]); try destruct H1;
  repeat (destruct H2 as [<-|H2]); try destruct H2;
  simpl in E; try discriminate; injection E; auto.
Qed.

Section Command.
Variable e : env.
Variable ps : list FormatParse.piece.
Variable val : str -> str -> str.
Hypothesis OK : Forall piece_ok2 ps.
Let infos := port_infos (FormatParse.flat ps).
Hypothesis VAL : forall k rest, In (FormatParse.PhK k rest) ps ->
  replacement infos e k rest = Ok (val k rest) /\ brace_free (val k rest).

(* placeholders of the pattern, as (body, value) in order of occurrence *)
Fixpoint assoc (l : list FormatParse.piece) : list (str * str) :=
  match l with
  | [] => []
  | FormatParse.Txt _ :: r => assoc r
  | FormatParse.PhK k rest :: r => (body_of k rest, val k rest) :: assoc r
  end.
Definition vfun (b : str) : str :=
  match find (fun kv => Str.str_eqb b (fst kv)) (assoc ps) with Some kv => snd kv | None => [] end.

Lemma in_phs l w k r : In (w, k, r) (phs l) -> w = render1 k r /\ In (FormatParse.PhK k r) l.
Proof.
  induction l as [|[u|k' r'] l IH]; simpl; [tauto| |].
  - intros H. destruct (IH H). auto.
  - intros [E|H]; [injection E as <- <- <-; auto|]. destruct (IH H). auto.
Qed.

Lemma assoc_in l b x : In (b, x) (assoc l) -> exists k r, In (FormatParse.PhK k r) l /\ b = body_of k r /\ x = val k r.
Proof.
  induction l as [|[u|k' r'] l IH]; simpl; [tauto| |].
  - intros H. destruct (IH H) as [k [r [A B]]]. eauto.
  - intros [E|H].
    + injection E as <- <-. exists k', r'. repeat split; auto.
    + destruct (IH H) as [k [r [A B]]]. exists k, r. split; [right; exact A|exact B].
Qed.

Lemma ok2_in k r : In (FormatParse.PhK k r) ps -> In k kinds /\ r <> [] /\ brace_free r.
Proof. intros H. rewrite Forall_forall in OK. exact (OK _ H). Qed.

Lemma vfun_val k r : In (FormatParse.PhK k r) ps -> vfun (body_of k r) = val k r.
Proof.
  intros Hin. unfold vfun.
  assert (Hex : In (body_of k r, val k r) (assoc ps)).
  { clear -Hin. induction ps as [|[u|k' r'] l IH]; simpl in *; [tauto| |].
    - destruct Hin as [E|H]; [discriminate|auto].
    - destruct Hin as [E|H]; [injection E as -> ->; auto|auto]. }
  destruct (find (fun kv => Str.str_eqb (body_of k r) (fst kv)) (assoc ps)) as [[b x]|] eqn:F.
  - apply find_some in F. destruct F as [Fin Feq]. simpl in *. apply str_eqb_true in Feq. subst b.
    destruct (assoc_in ps _ _ Fin) as [k2 [r2 [Hin2 [Hb Hx]]]].
    destruct (ok2_in k r Hin) as [Hk _]. destruct (ok2_in k2 r2 Hin2) as [Hk2 _].
    destruct (body_of_inj k r k2 r2 Hk Hk2 Hb) as [-> ->]. exact Hx.
  - exfalso. pose proof (find_none _ _ F _ Hex) as C. simpl in C.
    rewrite (proj2 (str_eqb_true (body_of k r) (body_of k r)) eq_refl) in C. discriminate.
Qed.

(* the list of matches as bodies *)
Definition bodies (l : list FormatParse.piece) : list str := map fst (assoc l).

Lemma fold_phs_bodies l : (forall k r, In (FormatParse.PhK k r) l -> In (FormatParse.PhK k r) ps) -> forall c,
  fold_left (fun c m => let '(whole, kind, rest) := m in replace_all whole (val kind rest) c) (phs l) c
  = fold_left (fun c b => replace_all (ph b) (vfun b) c) (bodies l) c.
Proof.
  induction l as [|[u|k r] l IH]; intros Hsub c; simpl; [reflexivity| |].
  - apply IH. intros k r H. apply Hsub. right. exact H.
  - unfold bodies. simpl. rewrite render1_ph. rewrite (vfun_val k r) by (apply Hsub; left; reflexivity).
    apply IH. intros k' r' H. apply Hsub. right. exact H.
Qed.

Lemma mem_bodies k r l : In (FormatParse.PhK k r) l -> mem (body_of k r) (bodies l) = true.
Proof.
  intros H. unfold mem, bodies. apply existsb_exists. exists (body_of k r). split; [|apply str_eqb_true; reflexivity].
  induction l as [|[u|k' r'] l IH]; simpl in *; [tauto| |].
  - destruct H as [E|H]; [discriminate|auto].
  - destruct H as [E|H]; [injection E as -> ->; auto|auto].
Qed.

(* C15_command *)
Theorem format_command_spec :
  format_command (FormatParse.flat ps) e =
  Ok (List.concat (map (fun p => match p with FormatParse.Txt u => u | FormatParse.PhK k rest => val k rest end) ps)).
Proof.
  destruct (ok2_ok ps OK) as [OK1 OK2].
  unfold format_command. fold infos. rewrite (C15_parse_render ps OK1).
  rewrite (format_fold infos e (phs ps) val).
  2:{ intros w k r Hin. destruct (in_phs ps w k r Hin) as [_ Hp]. exact (proj1 (VAL k r Hp)). }
  f_equal. rewrite (fold_phs_bodies ps (fun k r H => H)). rewrite flat_conv.
  rewrite (fold_replace vfun (bodies ps) (map conv ps) OK2).
  2:{ intros b Hb. unfold bodies in Hb. apply in_map_iff in Hb. destruct Hb as [[b' x] [E Hin]]. simpl in E. subst b'.
      destruct (assoc_in ps _ _ Hin) as [k [r [Hp [-> _]]]]. destruct (ok2_in k r Hp) as [Hk [_ Hr]]. split.
      - apply body_brace_free; auto.
      - rewrite (vfun_val k r Hp). exact (proj2 (VAL k r Hp)). }
  unfold Str.flat. rewrite !map_map. f_equal. apply map_ext_in. intros p Hp.
  destruct p as [u|k r]; simpl; [reflexivity|].
  rewrite (mem_bodies k r ps Hp). simpl. apply vfun_val. exact Hp.
Qed.
End Command.

(* ---------- the modifiers mean what the documentation says ---------- *)
Lemma apply_mod_basename p : apply_mod p (s2l "basename") = after_last_slash p.
Proof. reflexivity. Qed.

Lemma apply_mod_dirname p : apply_mod p (s2l "dirname") = before_last_slash p.
Proof. reflexivity. Qed.

(* %suffix: removed when the value ends with it and is longer than it; otherwise the value is unchanged
   (suffix without the shape s/x/y/ inside, which the code would additionally treat as a substitution) *)
Lemma apply_mod_suffix p suf : find_subst (pct :: suf) = None ->
  apply_mod p (pct :: suf) =
  if Nat.ltb (length suf) (length p) && is_suffix suf p then firstn (length p - length suf) p else p.
Proof.
  intros H. unfold apply_mod. rewrite H. cbn [find_trim]. rewrite Ascii.eqb_refl.
  assert (E1 : str_eqb (pct :: suf) (s2l "basename") = false).
  { unfold str_eqb. destruct (list_eq_dec ascii_dec (pct :: suf) (s2l "basename")) as [E|]; [discriminate E|reflexivity]. }
  assert (E2 : str_eqb (pct :: suf) (s2l "dirname") = false).
  { unfold str_eqb. destruct (list_eq_dec ascii_dec (pct :: suf) (s2l "dirname")) as [E|]; [discriminate E|reflexivity]. }
  rewrite E1, E2. reflexivity.
Qed.

(* modifiers are applied left to right *)
Lemma apply_mods_cons p m ms : apply_mods p (m :: ms) = apply_mods (apply_mod p m) ms.
Proof. reflexivity. Qed.

(* worked examples of the documented corner cases *)
Example mod_examples :
  l2s (apply_mods (s2l "data/foo.txt") [s2l "%.txt"; s2l "basename"]) = "foo"%string
  /\ l2s (apply_mods (s2l "data/foo.txt") [s2l "s/foo/bar/"; s2l "dirname"]) = "data"%string
  /\ l2s (apply_mods (s2l ".txt") [s2l "%.txt"]) = ".txt"%string
  /\ l2s (apply_mods (s2l "plain") [s2l "dirname"]) = "plain"%string.
Proof. vm_compute. repeat split; reflexivity. Qed.

(* ---- a missing value never yields a command ---- *)
Definition fstep (infos : list (str * pinfo)) (e : env) (acc : res) (m : str * str * str) : res :=
  match acc with
  | Fail => Fail
  | Ok c => let '(whole, kind, rest) := m in
            match replacement infos e kind rest with
            | Ok r => Ok (replace_all whole r c)
            | Fail => Fail end
  end.

Lemma format_command_fold cmd e : format_command cmd e = fold_left (fstep (port_infos cmd) e) (find_all cmd 0) (Ok cmd).
Proof. reflexivity. Qed.

Lemma fold_fail infos e ms : fold_left (fstep infos e) ms Fail = Fail.
Proof. induction ms as [|m ms IH]; simpl; auto. Qed.

(* if the replacement of any placeholder the scanner finds fails, no command is produced -- whatever the other
   placeholders are and wherever it stands *)
Theorem missing_value_fails cmd e whole kind rest :
  In (whole, kind, rest) (find_all cmd 0) -> replacement (port_infos cmd) e kind rest = Fail -> format_command cmd e = Fail.
Proof.
  intros Hin Hf. rewrite format_command_fold.
  apply in_split in Hin. destruct Hin as [l1 [l2 E]]. rewrite E, fold_left_app. simpl.
  destruct (fold_left (fstep (port_infos cmd) e) l1 (Ok cmd)) as [c|]; simpl.
  - rewrite Hf. apply fold_fail.
  - apply fold_fail.
Qed.

(* the failing cases of a parameter / tag / in-path placeholder: value absent, or present but empty *)
Lemma replacement_param_missing infos e name mods pi :
  lookup name infos = Some pi -> ptype pi = s2l "p" ->
  (lookup name (e_par e) = None \/ lookup name (e_par e) = Some []) ->
  hd [] (split_on pipe (name ++ mods)) = name -> replacement infos e (s2l "p") (name ++ mods) = Fail.
Proof.
  intros Hl Ht Hv Hn. unfold replacement. rewrite Hn, Hl, Ht. simpl.
  destruct Hv as [-> | ->]; reflexivity.
Qed.

Lemma replacement_tag_missing infos e name mods pi :
  lookup name infos = Some pi -> ptype pi = s2l "t" ->
  (lookup name (e_tag e) = None \/ lookup name (e_tag e) = Some []) ->
  hd [] (split_on pipe (name ++ mods)) = name -> replacement infos e (s2l "t") (name ++ mods) = Fail.
Proof.
  intros Hl Ht Hv Hn. unfold replacement. rewrite Hn, Hl, Ht. simpl.
  destruct Hv as [-> | ->]; reflexivity.
Qed.

Lemma replacement_in_missing infos e name mods pi :
  lookup name infos = Some pi -> ptype pi = s2l "i" -> pjoin pi = None ->
  (lookup name (e_in e) = None \/ lookup name (e_in e) = Some []) ->
  hd [] (split_on pipe (name ++ mods)) = name -> replacement infos e (s2l "i") (name ++ mods) = Fail.
Proof.
  intros Hl Ht Hj Hv Hn. unfold replacement. rewrite Hn, Hl, Ht, Hj. simpl.
  destruct Hv as [-> | ->]; reflexivity.
Qed.

Lemma replacement_unknown infos e kind rest :
  lookup (hd [] (split_on pipe rest)) infos = None -> replacement infos e kind rest = Fail.
Proof. intros H. unfold replacement. now rewrite H. Qed.
