(* Prototype: link between the concurrent TaskFS machine and the sequential
   reference `result`: whatever a task has committed is the reference value,
   crash states are `between`, completed runs equal the reference. *)
From Coq Require Import List Arith Lia Bool PeanoNat.
Import ListNotations.
Require Import Result TaskFS TInv TPres.

Section Glue.
Variable c : cfg.
Variable f0 : fs.
Hypothesis WF : wfc c.

Definition tl (n : nat) : list task := map (tk c) (seq 0 n).

Lemma tl_S n : tl (S n) = tl n ++ [tk c n].
Proof. unfold tl. rewrite seq_S, map_app. reflexivity. Qed.

Lemma result_app l1 : forall l2 f, result (l1 ++ l2) f =
  match result l1 f with Some g => result l2 g | None => None end.
Proof.
  induction l1 as [|t r IH]; intros l2 f; simpl; auto.
  destruct (run_task t f); auto.
Qed.

Lemma in_tl t n : In t (tl n) <-> exists i, i < n /\ t = tk c i.
Proof.
  unfold tl. rewrite in_map_iff. split.
  - intros [i [E Hi]]. apply in_seq in Hi. exists i. split; [lia|auto].
  - intros [i [Hi E]]. exists i. split; auto. apply in_seq. lia.
Qed.

(* prefix states of the reference run *)
Definition pre (n : nat) := result (tl n) f0.

Lemma pre_S n : pre (S n) = match pre n with Some g => run_task (tk c n) g | None => None end.
Proof.
  unfold pre. rewrite tl_S, result_app. destruct (result (tl n) f0); auto.
  simpl. destruct (run_task (tk c n) f); auto.
Qed.

Lemma pre_defined n m g : n <= m -> pre m = Some g -> exists g', pre n = Some g'.
Proof.
  intros H. revert g. induction H as [|m H IH]; intros g Hm; eauto.
  rewrite pre_S in Hm. destruct (pre m) eqn:E; [|discriminate]. eauto.
Qed.

(* later tasks do not touch location x *)
Lemma pre_frame n m gn gm x : n <= m -> pre n = Some gn -> pre m = Some gm -> m <= nt c ->
  (forall i, n <= i -> i < m -> ~ In x (tout (tk c i))) -> gm x = gn x.
Proof.
  intros H. revert gm. induction H as [|m H IH]; intros gm Hn Hm Hle Hx.
  - congruence.
  - rewrite pre_S in Hm. destruct (pre m) as [g|] eqn:E; [|discriminate].
    rewrite (run_task_frame _ _ _ x Hm) by (apply Hx; lia).
    apply IH; auto; try lia; intros i Hi1 Hi2; apply Hx; lia.
Qed.

Lemma lookup_write_all f os cs x : NoDup os -> length cs = length os -> In x os ->
  write_all f os cs x = lookup x os cs.
Proof.
  revert f cs; induction os as [|o os IH]; intros f [|c0 cs] ND Hl Hin; simpl in *; try lia; try tauto.
  inversion ND; subst. destruct (Nat.eqb_spec x o) as [->|Hne].
  - rewrite write_all_out by assumption. now rewrite Nat.eqb_refl.
  - destruct Hin as [->|Hin]; [congruence|]. apply IH; auto.
Qed.

Variable fR : fs.
Hypothesis HR : pre (nt c) = Some fR.

(* value of the final reference state on outputs of task t = state right after t *)
Lemma fR_after t g x : t < nt c -> pre (S t) = Some g -> In x (tout (tk c t)) -> fR x = g x.
Proof.
  intros Ht Hg Hx. apply (pre_frame (S t) (nt c) g fR x); auto; try lia.
  intros i Hi1 Hi2 Hin. eapply (w_disj c WF t i x); eauto; lia.
Qed.

Lemma fR_before t g y : t <= nt c -> pre t = Some g ->
  (forall i, t <= i -> i < nt c -> ~ In y (tout (tk c i))) -> fR y = g y.
Proof. intros Ht Hg Hy. apply (pre_frame t (nt c) g fR y); auto. Qed.

(* Main claim: everything a task has committed is the reference value, and a
   skipped task is also skipped by the reference run *)
Lemma committed_is_ref s : Inv c f0 s ->
  forall t, t < nt c ->
    (forall x, In x (tout (tk c t)) -> committed (pcs s t) x -> fin s x = fR x) /\
    (pcs s t = DoneSkip -> forall x, In x (tout (tk c t)) -> fR x = f0 x).
Proof.
  intros [HT HG] t. induction t as [t IH] using lt_wf_ind. intros Ht.
  destruct (HT t Ht) as [a1 a2 a3 a4 a5 a6 a7].
  destruct (pre_defined t (nt c) fR) as [g Hg]; [lia|exact HR|].
  destruct (pre_defined (S t) (nt c) fR) as [g' Hg']; [lia|exact HR|].
  pose proof Hg' as Hstep. rewrite pre_S, Hg in Hstep.
  (* outputs of t are untouched before t *)
  assert (Hgout : forall x, In x (tout (tk c t)) -> g x = f0 x).
  { intros x Hx. change f0 with f0. assert (P0 : pre 0 = Some f0) by reflexivity.
    apply (pre_frame 0 t f0 g x); auto; try lia.
    intros i _ Hi Hin. eapply (w_disj c WF t i x); eauto; lia. }
  split.
  - intros x Hx Hc.
    assert (Hpc : past_cmd (pcs s t) = true) by (destruct (pcs s t); simpl in *; tauto).
    assert (Hpk : past_chk (pcs s t) = true) by (destruct (pcs s t); simpl in *; tauto).
    destruct (a1 x Hx) as [b1 _]. destruct (b1 Hc) as [Hfx _]. rewrite Hfx.
    (* the reference run executes t on the same inputs *)
    assert (Hany : any_exists g (tout (tk c t)) = false).
    { destruct (any_exists g (tout (tk c t))) eqn:A; auto. apply any_exists_true in A.
      destruct A as [y [cy [Hy Hgy]]]. rewrite Hgout in Hgy by assumption.
      rewrite (a2 Hpk y Hy) in Hgy. discriminate. }
    assert (Hinp : map g (tin (tk c t)) = map (fin s) (tin (tk c t))).
    { apply map_ext_in. intros y Hy.
      (* is y produced by an earlier task? *)
      destruct (existsb (fun d => existsb (Nat.eqb y) (tout (tk c d))) (seq 0 t)) eqn:Ex.
      - apply existsb_exists in Ex. destruct Ex as [d [Hd Hyd]]. apply in_seq in Hd. apply existsb_eqb_In in Hyd.
        assert (Hdt : d < t) by lia. assert (Hdn : d < nt c) by lia.
        assert (Hsh : shares (tout (tk c d)) (tin (tk c t)) = true) by (apply shares_true; eauto).
        assert (Hw : pcs s t <> Wait) by (intros W; rewrite W in Hpc; discriminate).
        pose proof (a6 Hw d Hdt Hsh) as Hdone.
        destruct (IH d Hdt Hdn) as [IHc IHs].
        (* g y = fR y because no task in [t, nt) writes y *)
        assert (HgR : fR y = g y).
        { apply (fR_before t g y); auto; try lia. intros i Hi1 Hi2 Hin.
          eapply (w_disj c WF d i y); eauto; lia. }
        rewrite <- HgR.
        destruct (pcs s d) eqn:Pd; try discriminate.
        + symmetry. apply IHc; simpl; auto.
        + rewrite (IHs eq_refl y Hyd). destruct (HT d Hdn) as [d1 _ _ _ _ _ _].
          symmetry. apply (d1 y Hyd). rewrite Pd. simpl. tauto.
      - (* y is not written by any task *)
        assert (Hno : forall i, i < nt c -> ~ In y (tout (tk c i))).
        { intros i Hi Hin. destruct (Nat.lt_ge_cases i t) as [L|L].
          - assert (existsb (fun d => existsb (Nat.eqb y) (tout (tk c d))) (seq 0 t) = true).
            { apply existsb_exists. exists i. split; [apply in_seq; lia|apply existsb_eqb_In; auto]. }
            congruence.
          - eapply (w_topo c WF t i y); eauto. }
        rewrite (HG y Hno).
        assert (P0 : pre 0 = Some f0) by reflexivity.
        apply (pre_frame 0 t f0 g y); auto; try lia. intros i _ Hi. apply Hno; lia. }
    unfold run_task in Hstep. rewrite Hany, Hinp, (a3 Hpc) in Hstep. injection Hstep as <-.
    rewrite (fR_after t _ x Ht Hg' Hx).
    symmetry. apply lookup_write_all; auto.
    + apply (w_nodup c WF); auto.
    + eapply (w_len c WF); eauto.
  - intros Hs x Hx.
    unfold run_task in Hstep.
    assert (Hany : any_exists g (tout (tk c t)) = true).
    { rewrite <- (a7 Hs). apply any_exists_agree. exact Hgout. }
    rewrite Hany in Hstep. injection Hstep as <-.
    rewrite (fR_after t g x Ht Hg' Hx). apply Hgout; auto.
Qed.

End Glue.
Print Assumptions committed_is_ref.
