(* C11: the byte-level round trip.  decode (jrender d r) = Some r for every record tree whose strings are ASCII. *)
From Coq Require Import List Ascii String Arith Bool Lia.
Import ListNotations.
From SP Require Import Str PathLex Json JsonProofs.
Notation length := List.length.

Lemma lrun_app st a b : lrun st (a ++ b) = lrun (lrun st a) b.
Proof. unfold lrun. apply fold_left_app. Qed.

(* ---------- white space ---------- *)
Lemma lrun_ws toks s : Forall (fun c => is_ws c = true) s -> lrun (toks, MNorm) s = (toks, MNorm).
Proof.
  intros H. induction H as [|c s Hc _ IH]; [reflexivity|].
  unfold lrun in *. cbn [fold_left lstep]. unfold step_norm. rewrite Hc. exact IH.
Qed.

Lemma indent_ws d : Forall (fun c => is_ws c = true) (indent d).
Proof.
  unfold indent. induction d as [|d IH]; simpl; [constructor|].
  repeat (constructor; [reflexivity|]). exact IH.
Qed.

(* ---------- strings ---------- *)
Lemma lrun_escape_char (b0 b1 b2 b3 b4 b5 b6 : bool) toks acc :
  lrun (toks, MStr acc) (escape_char (Ascii b0 b1 b2 b3 b4 b5 b6 false)) = (toks, MStr (Ascii b0 b1 b2 b3 b4 b5 b6 false :: acc)).
Proof. destruct b0, b1, b2, b3, b4, b5, b6; reflexivity. Qed.

Lemma lrun_escape toks s : Forall is_ascii7 s -> forall acc, lrun (toks, MStr acc) (escape s) = (toks, MStr (rev s ++ acc)).
Proof.
  intros H. induction H as [|c s Hc _ IH]; intros acc; [reflexivity|].
  destruct c as [b0 b1 b2 b3 b4 b5 b6 b7]. simpl in Hc. subst b7.
  change (escape (Ascii b0 b1 b2 b3 b4 b5 b6 false :: s)) with (escape_char (Ascii b0 b1 b2 b3 b4 b5 b6 false) ++ escape s).
  rewrite lrun_app, lrun_escape_char, IH. cbn [rev]. rewrite <- app_assoc. reflexivity.
Qed.

Lemma lrun_jstr toks s : Forall is_ascii7 s -> lrun (toks, MNorm) (jstr s) = (TStr s :: toks, MNorm).
Proof.
  intros H. unfold jstr. change (dq :: escape s ++ [dq]) with ([dq] ++ escape s ++ [dq]).
  rewrite !lrun_app. change (lrun (toks, MNorm) [dq]) with (toks, MStr []).
  rewrite (lrun_escape toks s H []). rewrite app_nil_r.
  unfold lrun. cbn [fold_left lstep]. rewrite Ascii.eqb_refl. rewrite rev_involutive. reflexivity.
Qed.

(* ---------- numbers ---------- *)
Definition dval (l : str) (v : nat) : nat := fold_left (fun v c => v * 10 + digit_val c) l v.

Lemma dval_cons c l v : dval (c :: l) v = dval l (v * 10 + digit_val c).
Proof. reflexivity. Qed.

Lemma dval_pow l : forall v, dval l v = v * 10 ^ length l + dval l 0.
Proof.
  induction l as [|c l IH]; intros v.
  - unfold dval. simpl. lia.
  - rewrite !dval_cons. rewrite (IH (v * 10 + digit_val c)), (IH (0 * 10 + digit_val c)). cbn [length Nat.pow]. lia.
Qed.

Lemma digit_char k : k < 10 -> is_digit (ascii_of_nat (48 + k)) = true /\ digit_val (ascii_of_nat (48 + k)) = k.
Proof.
  intros H. unfold is_digit, digit_val. rewrite nat_ascii_embedding by lia.
  split; [|lia]. apply andb_true_iff. split; apply Nat.leb_le; lia.
Qed.

Lemma digits_spec f : forall n acc, n < f -> Forall (fun c => is_digit c = true) acc ->
  Forall (fun c => is_digit c = true) (digits f n acc) /\ dval (digits f n acc) 0 = n * 10 ^ length acc + dval acc 0.
Proof.
  induction f as [|f IH]; intros n acc Hn Ha; [lia|].
  cbn [digits].
  assert (Hm : n mod 10 < 10) by (apply Nat.mod_upper_bound; lia).
  destruct (digit_char (n mod 10) Hm) as [D1 D2].
  assert (Ha' : Forall (fun c => is_digit c = true) (ascii_of_nat (48 + n mod 10) :: acc)) by (constructor; auto).
  destruct (Nat.ltb_spec n 10) as [L|L].
  - split; [exact Ha'|]. rewrite dval_cons.
    rewrite dval_pow, D2. rewrite Nat.mod_small by lia. lia.
  - assert (Hd : n / 10 < f).
    { assert (n / 10 < n) by (apply Nat.div_lt; lia). lia. }
    destruct (IH (n / 10) _ Hd Ha') as [F V]. split; [exact F|]. rewrite V.
    rewrite dval_cons. cbn [length].
    rewrite (dval_pow acc), D2. cbn [Nat.pow].
    pose proof (Nat.div_mod n 10). lia.
Qed.

Lemma is_digit_range c : is_digit c = true -> 48 <= nat_of_ascii c <= 57.
Proof. unfold is_digit. cbv zeta. intros H. apply andb_true_iff in H. destruct H as [A B]. apply Nat.leb_le in A. apply Nat.leb_le in B. lia. Qed.

Lemma lrun_digits toks neg : forall l v, Forall (fun c => is_digit c = true) l -> lrun (toks, MNum neg v) l = (toks, MNum neg (dval l v)).
Proof.
  induction l as [|c l IH]; intros v H; [reflexivity|]. inversion H; subst.
  unfold lrun. cbn [fold_left lstep]. rewrite H2. apply IH. assumption.
Qed.

Lemma lrun_jnum toks neg n : lrun (toks, MNorm) (jnum neg n) = (toks, MNum neg n).
Proof.
  unfold jnum. destruct (digits_spec (S n) n [] (Nat.lt_succ_diag_r n) (Forall_nil _)) as [F V].
  cbn [length Nat.pow] in V. change (dval [] 0) with 0 in V. rewrite Nat.mul_1_r, Nat.add_0_r in V.
  destruct neg.
  - cbn [app]. change ("-"%char :: digits (S n) n []) with (["-"%char] ++ digits (S n) n []).
    rewrite lrun_app. change (lrun (toks, MNorm) ["-"%char]) with (toks, MNum true 0).
    rewrite lrun_digits by assumption. rewrite V. reflexivity.
  - cbn [app]. destruct (digits (S n) n []) as [|c l] eqn:E.
    + (* digits is never empty *) exfalso.
      assert (G : forall f m acc, digits (S f) m acc <> []).
      { clear. induction f as [|f IH]; intros m acc; cbn [digits].
        - destruct (Nat.ltb m 10); discriminate.
        - destruct (Nat.ltb m 10); [discriminate|]. apply IH. }
      exact (G n n [] E).
    + inversion F; subst. unfold lrun. cbn [fold_left lstep]. unfold step_norm.
      pose proof (is_digit_range c H1) as R.
      assert (W : is_ws c = false).
      { unfold is_ws. cbv zeta. repeat (apply orb_false_iff; split); apply Nat.eqb_neq; lia. }
      rewrite W.
      assert (NE : forall x, nat_of_ascii x < 48 \/ 57 < nat_of_ascii x -> Ascii.eqb c x = false).
      { intros x Hx. apply Ascii.eqb_neq. intros E'. subst x. lia. }
      repeat match goal with |- context [Ascii.eqb c ?x] => rewrite (NE x) by (vm_compute; lia) end. rewrite H1.
      fold (lrun (toks, MNum false (digit_val c)) l). rewrite lrun_digits by assumption.
      rewrite dval_cons. reflexivity.
Qed.

(* ---------- punctuation ---------- *)
Lemma lrun_chars toks :
  lrun (toks, MNorm) (s2l ": ") = (TColon :: toks, MNorm)
  /\ lrun (toks, MNorm) [","%char; nlc] = (TComma :: toks, MNorm)
  /\ lrun (toks, MNorm) [nlc] = (toks, MNorm)
  /\ lrun (toks, MNorm) ["{"%char; nlc] = (TLBrace :: toks, MNorm)
  /\ lrun (toks, MNorm) ["}"%char] = (TRBrace :: toks, MNorm)
  /\ lrun (toks, MNorm) (s2l "{}") = (TRBrace :: TLBrace :: toks, MNorm).
Proof. repeat split; reflexivity. Qed.

Lemma lrun_num_comma toks neg n : lrun (toks, MNum neg n) [","%char; nlc] = (TComma :: TNum neg n :: toks, MNorm).
Proof. reflexivity. Qed.

(* ---------- string maps ---------- *)
Definition ascii_str (s : str) : Prop := Forall is_ascii7 s.
Definition ascii_kv (l : list (str * str)) : Prop := Forall (fun kv => ascii_str (fst kv) /\ ascii_str (snd kv)) l.

Lemma render_smap_unfold d l : l <> [] -> render_smap d l = "{"%char :: nlc :: smap_entries d l ++ indent d ++ ["}"%char].
Proof. destruct l; [congruence|reflexivity]. Qed.

Ltac run1 :=
  first [ rewrite lrun_app
        | rewrite (lrun_ws _ (indent _) (indent_ws _))
        | rewrite lrun_jstr by assumption
        | rewrite (proj1 (lrun_chars _)) ].

Lemma lrun_entries d : forall l toks, l <> [] -> ascii_kv l ->
  lrun (toks, MNorm) (smap_entries d l) = (rev (tpairs l) ++ toks, MNorm).
Proof.
  induction l as [|[k v] l IH]; intros toks Hne Ha; [congruence|].
  inversion Ha as [|? ? [Hk Hv] Ha']; subst. simpl in Hk, Hv.
  destruct l as [|[k2 v2] l2].
  - cbn [smap_entries tpairs]. repeat run1.
    destruct (lrun_chars (TStr v :: TColon :: TStr k :: toks)) as [_ [_ [E _]]]. rewrite E. reflexivity.
  - change (smap_entries d ((k, v) :: (k2, v2) :: l2)) with
      (indent (S d) ++ jstr k ++ s2l ": " ++ jstr v ++ [","%char; nlc] ++ smap_entries d ((k2, v2) :: l2)).
    change (tpairs ((k, v) :: (k2, v2) :: l2)) with (TStr k :: TColon :: TStr v :: TComma :: tpairs ((k2, v2) :: l2)).
    repeat run1.
    destruct (lrun_chars (TStr v :: TColon :: TStr k :: toks)) as [_ [E _]]. rewrite E.
    rewrite IH by (discriminate || assumption). cbn [rev]. rewrite <- !app_assoc. reflexivity.
Qed.

Lemma lrun_smap d l toks : ascii_kv l -> lrun (toks, MNorm) (render_smap d l) = (rev (tsmap l) ++ toks, MNorm).
Proof.
  intros Ha. destruct l as [|kv l].
  - cbn [render_smap]. destruct (lrun_chars toks) as [_ [_ [_ [_ [_ E]]]]]. rewrite E. reflexivity.
  - rewrite render_smap_unfold by discriminate.
    change ("{"%char :: nlc :: smap_entries d (kv :: l) ++ indent d ++ ["}"%char]) with
      (["{"%char; nlc] ++ smap_entries d (kv :: l) ++ indent d ++ ["}"%char]).
    rewrite lrun_app. destruct (lrun_chars toks) as [_ [_ [_ [E _]]]]. rewrite E.
    rewrite lrun_app, lrun_entries by (discriminate || assumption).
    rewrite lrun_app, (lrun_ws _ (indent d) (indent_ws d)).
    destruct (lrun_chars (rev (tpairs (kv :: l)) ++ TLBrace :: toks)) as [_ [_ [_ [_ [E2 _]]]]]. rewrite E2.
    unfold tsmap. cbn [rev]. rewrite rev_app_distr. cbn [rev app]. rewrite <- !app_assoc. reflexivity.
Qed.

(* ---------- records ---------- *)
Definition rups (d : nat) : list (str * jrec) -> str :=
  fix go (l : list (str * jrec)) : str :=
  match l with
  | [] => []
  | (k, u) :: r => match r with
                   | [] => indent (S (S d)) ++ jstr k ++ s2l ": " ++ jrender (S (S d)) u ++ [nlc]
                   | _ => indent (S (S d)) ++ jstr k ++ s2l ": " ++ jrender (S (S d)) u ++ ","%char :: nlc :: go r
                   end
  end.

Definition rline (d : nat) (k : string) (v : str) : str := indent (S d) ++ jstr (s2l k) ++ s2l ": " ++ v ++ ","%char :: [nlc].

Lemma jrender_unfold d id proc cmd params tags start finish neg exec outs up :
  jrender d (JRec id proc cmd params tags start finish neg exec outs up) =
  "{"%char :: nlc ::
  rline d "ID" (jstr id) ++ rline d "ProcessName" (jstr proc) ++ rline d "Command" (jstr cmd) ++
  rline d "Params" (render_smap (S d) params) ++ rline d "Tags" (render_smap (S d) tags) ++
  rline d "StartTime" (jstr start) ++ rline d "FinishTime" (jstr finish) ++ rline d "ExecTimeNS" (jnum neg exec) ++
  rline d "OutFiles" (render_smap (S d) outs) ++
  indent (S d) ++ jstr (s2l "Upstream") ++ s2l ": " ++
  (match up with [] => s2l "{}" | _ => "{"%char :: nlc :: rups d up ++ indent (S d) ++ ["}"%char] end) ++
  nlc :: indent d ++ ["}"%char].
Proof. reflexivity. Qed.

(* "s lexes to X": run from between tokens, the bytes s add exactly the tokens X and end between tokens *)
Definition lexes (s : str) (X : list jtok) : Prop := forall toks, lrun (toks, MNorm) s = (rev X ++ toks, MNorm).

Lemma lexes_app a b X Y : lexes a X -> lexes b Y -> lexes (a ++ b) (X ++ Y).
Proof. intros Ha Hb toks. rewrite lrun_app, Ha, Hb, rev_app_distr, app_assoc. reflexivity. Qed.
Lemma lexes_ws s : Forall (fun c => is_ws c = true) s -> lexes s [].
Proof. intros H toks. now rewrite lrun_ws. Qed.
Lemma lexes_jstr s : ascii_str s -> lexes (jstr s) [TStr s].
Proof. intros H toks. now rewrite lrun_jstr. Qed.
Lemma lexes_smap d l : ascii_kv l -> lexes (render_smap d l) (tsmap l).
Proof. intros H toks. now rewrite lrun_smap. Qed.
Lemma lexes_colon : lexes (s2l ": ") [TColon]. Proof. intros toks. reflexivity. Qed.
Lemma lexes_comma : lexes (","%char :: [nlc]) [TComma]. Proof. intros toks. reflexivity. Qed.
Lemma lexes_comma' : lexes [","%char; nlc] [TComma]. Proof. intros toks. reflexivity. Qed.
Lemma lexes_nl : lexes [nlc] []. Proof. intros toks. reflexivity. Qed.
Lemma lexes_open : lexes ["{"%char; nlc] [TLBrace]. Proof. intros toks. reflexivity. Qed.
Lemma lexes_close : lexes ["}"%char] [TRBrace]. Proof. intros toks. reflexivity. Qed.
Lemma lexes_empty : lexes (s2l "{}") [TLBrace; TRBrace]. Proof. intros toks. reflexivity. Qed.

Lemma lexes_rline d k v V : ascii_str (s2l k) -> lexes v V -> lexes (rline d k v) (tkey k ++ V ++ [TComma]).
Proof.
  intros Hk Hv. unfold rline.
  change (tkey k ++ V ++ [TComma]) with ([] ++ [TStr (s2l k)] ++ [TColon] ++ V ++ [TComma]).
  apply lexes_app; [apply lexes_ws, indent_ws|].
  apply lexes_app; [apply lexes_jstr, Hk|].
  apply lexes_app; [apply lexes_colon|].
  apply lexes_app; [exact Hv|apply lexes_comma].
Qed.

Lemma lexes_rline_num d k neg n : ascii_str (s2l k) -> lexes (rline d k (jnum neg n)) (tkey k ++ [TNum neg n; TComma]).
Proof.
  intros Hk toks. unfold rline. rewrite !lrun_app.
  rewrite (lrun_ws _ _ (indent_ws (S d))). rewrite lrun_jstr by exact Hk.
  destruct (lrun_chars (TStr (s2l k) :: toks)) as [E _]. rewrite E.
  rewrite lrun_jnum. rewrite lrun_num_comma. reflexivity.
Qed.

Lemma rups_one d k u : rups d [(k, u)] = indent (S (S d)) ++ jstr k ++ s2l ": " ++ jrender (S (S d)) u ++ [nlc].
Proof. reflexivity. Qed.
Lemma rups_more d k u k2 u2 r : rups d ((k, u) :: (k2, u2) :: r) =
  indent (S (S d)) ++ jstr k ++ s2l ": " ++ jrender (S (S d)) u ++ ","%char :: nlc :: rups d ((k2, u2) :: r).
Proof. reflexivity. Qed.

Lemma lexes_rups d up : up <> [] ->
  (forall k u, In (k, u) up -> ascii_str k /\ forall d', lexes (jrender d' u) (ptoks u)) -> lexes (rups d up) (tups up).
Proof.
  induction up as [|[k u] up IH]; intros Hne H; [congruence|].
  destruct (H k u (or_introl eq_refl)) as [Hk Hu].
  destruct up as [|[k2 u2] up2].
  - rewrite rups_one. replace (tups [(k, u)]) with ([] ++ [TStr k] ++ [TColon] ++ ptoks u ++ []) by (cbn [tups app]; now rewrite app_nil_r).
    apply lexes_app; [apply lexes_ws, indent_ws|].
    apply lexes_app; [apply lexes_jstr, Hk|].
    apply lexes_app; [apply lexes_colon|].
    apply lexes_app; [apply Hu|apply lexes_nl].
  - rewrite rups_more.
    change (tups ((k, u) :: (k2, u2) :: up2)) with ([] ++ [TStr k] ++ [TColon] ++ ptoks u ++ [TComma] ++ tups ((k2, u2) :: up2)).
    apply lexes_app; [apply lexes_ws, indent_ws|].
    apply lexes_app; [apply lexes_jstr, Hk|].
    apply lexes_app; [apply lexes_colon|].
    apply lexes_app; [apply Hu|].
    change (","%char :: nlc :: rups d ((k2, u2) :: up2)) with ([","%char; nlc] ++ rups d ((k2, u2) :: up2)).
    apply lexes_app; [apply lexes_comma'|].
    apply IH; [discriminate|]. intros k' u' Hin. apply H. right. exact Hin.
Qed.

(* every string of the record tree is 7-bit ASCII (bytes >= 0x80 are UTF-8 sequences in Go; not modelled) *)
Fixpoint ascii_rec (r : jrec) : Prop :=
  match r with
  | JRec id proc cmd params tags start finish _ _ outs up =>
    ascii_str id /\ ascii_str proc /\ ascii_str cmd /\ ascii_kv params /\ ascii_kv tags /\ ascii_str start /\ ascii_str finish /\
    ascii_kv outs /\
    (fix go (l : list (str * jrec)) : Prop := match l with [] => True | (k, u) :: r => ascii_str k /\ ascii_rec u /\ go r end) up
  end.

Lemma ascii_rec_children (up : list (str * jrec)) :
  (fix go (l : list (str * jrec)) : Prop := match l with [] => True | (k, u) :: r => ascii_str k /\ ascii_rec u /\ go r end) up ->
  forall k u, In (k, u) up -> ascii_str k /\ ascii_rec u.
Proof.
  induction up as [|[k0 u0] up IH]; intros H k u Hin; [destruct Hin|].
  destruct H as [Hk [Hu Hr]]. destruct Hin as [E|Hin]; [injection E as <- <-; auto|]. apply IH; assumption.
Qed.

Lemma key_ascii_ok : ascii_str (s2l "ID") /\ ascii_str (s2l "ProcessName") /\ ascii_str (s2l "Command") /\ ascii_str (s2l "Params") /\
  ascii_str (s2l "Tags") /\ ascii_str (s2l "StartTime") /\ ascii_str (s2l "FinishTime") /\ ascii_str (s2l "ExecTimeNS") /\
  ascii_str (s2l "OutFiles") /\ ascii_str (s2l "Upstream").
Proof. repeat split; repeat constructor. Qed.

(* the lexer reads the rendering of a record tree as exactly the record's token sequence: every tree, every depth *)
Theorem lexes_jrender : forall r, ascii_rec r -> forall d, lexes (jrender d r) (ptoks r).
Proof.
  induction r as [id proc cmd params tags start finish neg exec outs up IH] using jrec_ind'.
  intros HA d. cbn [ascii_rec] in HA.
  destruct HA as [Hid [Hproc [Hcmd [Hpar [Htag [Hst [Hfi [Hout Hup]]]]]]]].
  pose proof (ascii_rec_children up Hup) as Hch.
  destruct key_ascii_ok as [K1 [K2 [K3 [K4 [K5 [K6 [K7 [K8 [K9 K10]]]]]]]]].
  rewrite jrender_unfold, ptoks_unfold.
  set (upS := match up with [] => s2l "{}" | _ => "{"%char :: nlc :: rups d up ++ indent (S d) ++ ["}"%char] end).
  assert (HupS : lexes upS (TLBrace :: tups up ++ [TRBrace])).
  { unfold upS. destruct up as [|ku up'].
    - apply lexes_empty.
    - change ("{"%char :: nlc :: rups d (ku :: up') ++ indent (S d) ++ ["}"%char])
        with (["{"%char; nlc] ++ rups d (ku :: up') ++ indent (S d) ++ ["}"%char]).
      change (TLBrace :: tups (ku :: up') ++ [TRBrace]) with ([TLBrace] ++ tups (ku :: up') ++ [] ++ [TRBrace]).
      apply lexes_app; [apply lexes_open|].
      apply lexes_app; [|apply lexes_app; [apply lexes_ws, indent_ws|apply lexes_close]].
      apply lexes_rups; [discriminate|].
      intros k u Hin. destruct (Hch k u Hin) as [Hk Hu]. split; [exact Hk|].
      rewrite Forall_forall in IH. intros d'. apply (IH (k, u) Hin). exact Hu. }
  assert (E : head_toks id proc cmd params tags start finish neg exec outs (tups up ++ [TRBrace; TRBrace]) =
    [TLBrace] ++ (tkey "ID" ++ [TStr id] ++ [TComma]) ++ (tkey "ProcessName" ++ [TStr proc] ++ [TComma]) ++
    (tkey "Command" ++ [TStr cmd] ++ [TComma]) ++ (tkey "Params" ++ tsmap params ++ [TComma]) ++
    (tkey "Tags" ++ tsmap tags ++ [TComma]) ++ (tkey "StartTime" ++ [TStr start] ++ [TComma]) ++
    (tkey "FinishTime" ++ [TStr finish] ++ [TComma]) ++ (tkey "ExecTimeNS" ++ [TNum neg exec; TComma]) ++
    (tkey "OutFiles" ++ tsmap outs ++ [TComma]) ++ [] ++ [TStr (s2l "Upstream")] ++ [TColon] ++
    (TLBrace :: tups up ++ [TRBrace]) ++ [] ++ [] ++ [TRBrace]).
  { unfold head_toks, tkey. cbn [app]. repeat (rewrite <- app_assoc; cbn [app]). reflexivity. }
  rewrite E.
  change ("{"%char :: nlc :: ?x) with (["{"%char; nlc] ++ x).
  apply lexes_app; [apply lexes_open|].
  apply lexes_app; [apply lexes_rline; [exact K1|apply lexes_jstr, Hid]|].
  apply lexes_app; [apply lexes_rline; [exact K2|apply lexes_jstr, Hproc]|].
  apply lexes_app; [apply lexes_rline; [exact K3|apply lexes_jstr, Hcmd]|].
  apply lexes_app; [apply lexes_rline; [exact K4|apply lexes_smap, Hpar]|].
  apply lexes_app; [apply lexes_rline; [exact K5|apply lexes_smap, Htag]|].
  apply lexes_app; [apply lexes_rline; [exact K6|apply lexes_jstr, Hst]|].
  apply lexes_app; [apply lexes_rline; [exact K7|apply lexes_jstr, Hfi]|].
  apply lexes_app; [apply lexes_rline_num; exact K8|].
  apply lexes_app; [apply lexes_rline; [exact K9|apply lexes_smap, Hout]|].
  apply lexes_app; [apply lexes_ws, indent_ws|].
  apply lexes_app; [apply lexes_jstr, K10|].
  apply lexes_app; [apply lexes_colon|].
  apply lexes_app; [exact HupS|].
  change (nlc :: indent d ++ ["}"%char]) with ([nlc] ++ indent d ++ ["}"%char]).
  apply lexes_app; [apply lexes_nl|].
  apply lexes_app; [apply lexes_ws, indent_ws|apply lexes_close].
Qed.

(* the fuel decode gives the parser is enough: a record is never taller than its token sequence is long *)
Lemma head_toks_length id proc cmd params tags start finish neg exec outs tail :
  length tail < length (head_toks id proc cmd params tags start finish neg exec outs tail).
Proof.
  unfold head_toks, tkey. cbn [app length]. repeat (rewrite app_length; cbn [length]). lia.
Qed.

Lemma tups_height (up : list (str * jrec)) :
  Forall (fun ku => height (snd ku) <= length (ptoks (snd ku))) up ->
  fold_right (fun ku a => Nat.max (height (snd ku)) a) 0 up <= length (tups up).
Proof.
  induction up as [|[k u] up IH]; intros H; [simpl; lia|].
  inversion H as [|? ? Hu Hr]; subst. cbn [snd] in Hu. specialize (IH Hr).
  cbn [fold_right snd].
  destruct up as [|[k2 u2] up2].
  - cbn [tups fold_right length]. lia.
  - change (tups ((k, u) :: (k2, u2) :: up2)) with (TStr k :: TColon :: ptoks u ++ TComma :: tups ((k2, u2) :: up2)).
    remember (tups ((k2, u2) :: up2)) as T. remember (fold_right (fun ku a => Nat.max (height (snd ku)) a) 0 ((k2, u2) :: up2)) as M.
    cbn [length]. rewrite app_length. cbn [length]. lia.
Qed.

Lemma height_le_toks : forall r, height r <= length (ptoks r).
Proof.
  induction r as [id proc cmd params tags start finish neg exec outs up IH] using jrec_ind'.
  rewrite ptoks_unfold.
  pose proof (head_toks_length id proc cmd params tags start finish neg exec outs (tups up ++ [TRBrace; TRBrace])) as HL.
  rewrite app_length in HL. cbn [length] in HL.
  pose proof (tups_height up IH) as HT. cbn [height]. lia.
Qed.

(* C11, the codec: reading back the bytes written for a record tree gives the record tree -- every tree of every shape and
   depth, every string made of 7-bit characters (quotes, back-slashes, control characters, <, >, & included) *)
Theorem decode_jrender : forall r, ascii_rec r -> decode (jrender 0 r) = Some r.
Proof.
  intros r HA. unfold decode, lex. rewrite (lexes_jrender r HA 0 []). rewrite app_nil_r, rev_involutive.
  pose proof (prec_ptoks r (S (length (ptoks r))) [] (Nat.le_trans _ _ _ (height_le_toks r) (Nat.le_succ_diag_r _))) as HP.
  rewrite app_nil_r in HP. rewrite HP. reflexivity.
Qed.

Example ascii_rec_ex : ascii_rec ex_rec.
Proof. cbn. repeat split; repeat constructor. Qed.
