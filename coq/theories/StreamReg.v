(* A task with a streamed and a regular output (finding D23).

   Process.Run sends the streamed out-IPs of a task BEFORE the task executes (the reader has to be there for the FIFO to
   open) and its regular out-IPs AFTER it has finished; a downstream process forms a task only when every in-port has
   delivered; a command that writes a FIFO ends only after a reader has opened it.  One producer task, one consumer task;
   the consumer reads the stream, and -- if `both` -- also the regular output. *)
From Coq Require Import List Arith Lia Bool PeanoNat.
Import ListNotations.

Inductive ppc := PFormed | PStreamSent | PRunning | PWritten | PFinished | PRegSent.
Inductive cpc := CWait | CRunning | CDone.

Record st := { pp : ppc; cp : cpc; gotS : bool; gotR : bool }.

Inductive act :=
| SendStream      (* producer's process: the streamed out-IP goes downstream, then the task is started *)
| StartCmd        (* producer's command starts: creates the FIFO, blocks in open() *)
| WriteAll        (* the FIFO is open on both sides: the command writes and exits *)
| Finish          (* producer task finalizes *)
| SendReg         (* producer's process: the regular out-IP goes downstream *)
| Form            (* consumer's process has an IP on every in-port: task formed, command started, opens the FIFO *)
| ReadAll.        (* consumer's command reads to EOF and (for `both`) the regular file, exits, finalizes *)

Definition init : st := {| pp := PFormed; cp := CWait; gotS := false; gotR := false |}.

Definition step (both : bool) (s : st) (a : act) : option st :=
  match a with
  | SendStream => match pp s with PFormed => Some {| pp := PStreamSent; cp := cp s; gotS := true; gotR := gotR s |} | _ => None end
  | StartCmd => match pp s with PStreamSent => Some {| pp := PRunning; cp := cp s; gotS := gotS s; gotR := gotR s |} | _ => None end
  | WriteAll => match pp s, cp s with
                | PRunning, CRunning => Some {| pp := PWritten; cp := cp s; gotS := gotS s; gotR := gotR s |}
                | _, _ => None end
  | Finish => match pp s with PWritten => Some {| pp := PFinished; cp := cp s; gotS := gotS s; gotR := gotR s |} | _ => None end
  | SendReg => match pp s with PFinished => Some {| pp := PRegSent; cp := cp s; gotS := gotS s; gotR := true |} | _ => None end
  | Form => match cp s with
            | CWait => if gotS s && (negb both || gotR s) then Some {| pp := pp s; cp := CRunning; gotS := gotS s; gotR := gotR s |} else None
            | _ => None end
  | ReadAll => match cp s, pp s with
               | CRunning, (PWritten | PFinished | PRegSent) => Some {| pp := pp s; cp := CDone; gotS := gotS s; gotR := gotR s |}
               | _, _ => None end
  end.

Fixpoint run (both : bool) (s : st) (l : list act) : option st :=
  match l with [] => Some s | a :: r => match step both s a with Some s' => run both s' r | None => None end end.

Definition final (s : st) : bool := match pp s, cp s with PRegSent, CDone => true | _, _ => false end.

Definition all_acts := [SendStream; StartCmd; WriteAll; Finish; SendReg; Form; ReadAll].
Definition stuck (both : bool) (s : st) : bool := forallb (fun a => match step both s a with None => true | Some _ => false end) all_acts.

Lemma all_acts_complete a : In a all_acts.
Proof. destruct a; simpl; tauto. Qed.

(* invariant *)
Definition Inv (both : bool) (s : st) : Prop :=
  (gotS s = match pp s with PFormed => false | _ => true end) /\
  (gotR s = match pp s with PRegSent => true | _ => false end) /\
  (cp s = CRunning \/ cp s = CDone -> gotS s = true /\ (both = true -> gotR s = true)) /\
  (cp s = CDone -> match pp s with PWritten | PFinished | PRegSent => True | _ => False end) /\
  (match pp s with PWritten | PFinished | PRegSent => cp s <> CWait | _ => True end).

Lemma init_inv both : Inv both init.
Proof. unfold Inv, init; simpl. repeat split; try tauto; intuition discriminate. Qed.

Lemma step_inv both s a s' : Inv both s -> step both s a = Some s' -> Inv both s'.
Proof.
  intros (I1 & I2 & I3 & I4 & I5) H. destruct s as [p q gs gr]; simpl in *.
  destruct a; simpl in H; destruct p; destruct q; simpl in *; try discriminate;
    try (destruct (gs && (negb both || gr)) eqn:G; try discriminate);
    injection H as <-; unfold Inv; simpl; subst;
    repeat split; try tauto; try discriminate; try congruence;
    try (intros [X|X]; try discriminate; try (destruct I3 as [? ?]; [tauto|]; tauto)); intros;
    try (destruct both; simpl in *; try reflexivity; try discriminate; try tauto; try congruence).
  all: try (apply andb_prop in G; destruct G as [G1 G2]; try reflexivity; destruct both; simpl in *; congruence).
Qed.

Lemma run_inv both l : forall s s', Inv both s -> run both s l = Some s' -> Inv both s'.
Proof.
  induction l as [|a r IH]; simpl; intros s s' I H.
  - injection H as <-. exact I.
  - destruct (step both s a) as [s1|] eqn:S; [|discriminate]. apply (IH s1 s'); [eapply step_inv; eauto | exact H].
Qed.

(* ---- the stream alone: no reachable state short of the end is stuck, every run has at most 7 steps ---- *)
Theorem stream_only_progress l s : run false init l = Some s -> final s = false -> stuck false s = false.
Proof.
  intros R F. pose proof (run_inv false l _ _ (init_inv false) R) as (I1 & I2 & I3 & I4 & I5).
  destruct s as [p q gs gr]; simpl in *. subst.
  destruct p; destruct q; simpl in *; try reflexivity; try discriminate;
    try (exfalso; tauto); try (exfalso; apply I5; reflexivity);
    try (destruct I3 as [X _]; [tauto|discriminate]).
Qed.

Definition measure (s : st) : nat :=
  (match pp s with PFormed => 5 | PStreamSent => 4 | PRunning => 3 | PWritten => 2 | PFinished => 1 | PRegSent => 0 end)
  + (match cp s with CWait => 2 | CRunning => 1 | CDone => 0 end).

Theorem step_decreases both s a s' : step both s a = Some s' -> measure s' < measure s.
Proof.
  destruct s as [p q gs gr]. destruct a; simpl; destruct p; destruct q; simpl; try discriminate;
    try (destruct (gs && (negb both || gr)); try discriminate); intros H; injection H as <-; unfold measure; simpl; lia.
Qed.

Theorem stream_only_example :
  exists s, run false init [SendStream; StartCmd; Form; WriteAll; ReadAll; Finish; SendReg] = Some s /\ final s = true.
Proof. eexists. split; [vm_compute; reflexivity|reflexivity]. Qed.

(* ---- the stream and the regular output into the same consumer: the run is stuck after two steps, always ---- *)
(* the consumer never leaves CWait and the producer never gets past PRunning *)
Theorem both_never_completes l s : run true init l = Some s -> cp s = CWait /\ (pp s = PFormed \/ pp s = PStreamSent \/ pp s = PRunning).
Proof.
  revert s. induction l as [|a r IH] using rev_ind; intros s R.
  - injection R as <-. simpl. auto.
  - assert (exists s1, run true init r = Some s1 /\ step true s1 a = Some s) as (s1 & R1 & S).
    { clear IH. revert R. generalize init. induction r as [|b r IH]; simpl; intros s0 R.
      - destruct (step true s0 a) as [x|] eqn:E; [|discriminate]. injection R as <-. exists s0. auto.
      - destruct (step true s0 b) as [x|]; [|discriminate]. apply IH; exact R. }
    destruct (IH s1 R1) as [C P]. pose proof (run_inv true r _ _ (init_inv true) R1) as (I1 & I2 & _).
    destruct s1 as [p q gs gr]; simpl in *. subst q.
    destruct a; simpl in S; destruct P as [P|[P|P]]; subst p; simpl in *; try discriminate;
      try (injection S as <-; simpl; auto; fail);
      subst; simpl in S; discriminate.
Qed.

Theorem both_is_stuck :
  exists s, run true init [SendStream; StartCmd] = Some s /\ stuck true s = true /\ final s = false.
Proof. eexists. split; [vm_compute; reflexivity|]. split; reflexivity. Qed.

Corollary both_refuted l s : run true init l = Some s -> final s = false.
Proof. intros R. destruct (both_never_completes l s R) as [C _]. unfold final. rewrite C. destruct (pp s); reflexivity. Qed.
