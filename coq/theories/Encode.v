(* Prototype: FileIP.TempPath encoding (C13): replaceParentDirsWithPlaceholder leaves no "../". *)
From Coq Require Import List Ascii String Arith Lia Bool.
Import ListNotations.
Require Import Str.
Notation length := List.length.

Definition dotc : ascii := "."%char.
Definition slc : ascii := "/"%char.
Definition up : str := [dotc; dotc; slc].                       (* "../" *)
Definition PH : str := list_ascii_of_string "__parent__".

(* a direct recursive definition, easier to reason about than the generic replace *)
Fixpoint enc (s : str) : str :=
  match s with
  | [] => []
  | c :: r =>
    match r with
    | c2 :: c3 :: r' =>
      if Ascii.eqb c dotc && Ascii.eqb c2 dotc && Ascii.eqb c3 slc then PH ++ enc r' else c :: enc r
    | _ => c :: enc r
    end
  end.

Local Arguments Ascii.eqb : simpl never.

Lemma prefix_up_3 c c2 c3 r :
  prefixb up (c :: c2 :: c3 :: r) = Ascii.eqb dotc c && (Ascii.eqb dotc c2 && (Ascii.eqb slc c3 && true)).
Proof. reflexivity. Qed.
Lemma prefix_up_2 c c2 : prefixb up [c; c2] = false.
Proof. cbn [prefixb up]. now rewrite !andb_false_r. Qed.
Lemma prefix_up_1 c : prefixb up [c] = false.
Proof. cbn [prefixb up]. now rewrite !andb_false_r. Qed.

Lemma ra_cons0 old new c r :
  ra old new (c :: r) 0 = if prefixb old (c :: r) then new ++ ra old new r (length old - 1) else c :: ra old new r 0.
Proof. reflexivity. Qed.
Lemma ra_consS old new c r k : ra old new (c :: r) (S k) = ra old new r k.
Proof. reflexivity. Qed.

Lemma enc_3 c c2 c3 r' :
  enc (c :: c2 :: c3 :: r') =
  if Ascii.eqb c dotc && Ascii.eqb c2 dotc && Ascii.eqb c3 slc then PH ++ enc r' else c :: enc (c2 :: c3 :: r').
Proof. reflexivity. Qed.

(* bridge: Go's strings.ReplaceAll(s, "../", "__parent__") is enc *)
Lemma ra_up_enc : forall n s, length s <= n -> replace_all up PH s = enc s.
Proof.
  unfold replace_all. induction n as [|n IH]; intros s Hn.
  - destruct s; [reflexivity|simpl in Hn; lia].
  - destruct s as [|c r]; [reflexivity|]. simpl in Hn.
    destruct r as [|c2 [|c3 r']].
    + rewrite ra_cons0, prefix_up_1. reflexivity.
    + rewrite ra_cons0, prefix_up_2. change (enc [c; c2]) with (c :: enc [c2]). f_equal. rewrite ra_cons0, prefix_up_1. reflexivity.
    + rewrite enc_3.
      rewrite (Ascii.eqb_sym c dotc), (Ascii.eqb_sym c2 dotc), (Ascii.eqb_sym c3 slc).
      rewrite ra_cons0, prefix_up_3.
      destruct (Ascii.eqb dotc c) eqn:E1; cbn [andb].
      * destruct (Ascii.eqb dotc c2) eqn:E2; cbn [andb].
        -- destruct (Ascii.eqb slc c3) eqn:E3; cbn [andb].
           ++ f_equal. change (length up - 1) with 2. rewrite !ra_consS. apply IH. simpl in Hn. lia.
           ++ f_equal. apply (IH (c2 :: c3 :: r')). simpl in *. lia.
        -- f_equal. apply (IH (c2 :: c3 :: r')). simpl in *. lia.
      * f_equal. apply (IH (c2 :: c3 :: r')). simpl in *. lia.
Qed.

Theorem replace_all_up_enc s : replace_all up PH s = enc s.
Proof. apply (ra_up_enc (length s)). lia. Qed.
Print Assumptions replace_all_up_enc.

(* ---- the encoded path contains no "../" ---- *)
Definition us : ascii := "_"%char.

Lemma enc_head c r : exists t, enc (c :: r) = c :: t \/ enc (c :: r) = us :: t.
Proof.
  destruct r as [|c2 [|c3 r']].
  - exists []. left. reflexivity.
  - exists (enc [c2]). left. reflexivity.
  - rewrite enc_3. destruct (_ && _ && _).
    + eexists. right. reflexivity.
    + eexists. left. reflexivity.
Qed.

Lemma prefixb_up_cons c t : prefixb up (c :: t) = true ->
  c = dotc /\ exists t', t = dotc :: slc :: t'.
Proof.
  destruct t as [|d [|e t']]; cbn [prefixb up]; rewrite ?andb_false_r; try discriminate.
  rewrite !andb_true_iff. intros [H1 [H2 [H3 _]]].
  apply Ascii.eqb_eq in H1, H2, H3. subst. eauto.
Qed.

Lemma ph_suffix_safe k t : k < 10 -> prefixb up (skipn k (PH ++ t)) = false.
Proof.
  intros Hk. do 10 (destruct k as [|k]; [reflexivity|]). lia.
Qed.

Lemma no_up_in_enc : forall n s, length s <= n -> forall k, prefixb up (skipn k (enc s)) = false.
Proof.
  induction n as [|n IH]; intros s Hn k.
  - destruct s; [|simpl in Hn; lia]. destruct k; reflexivity.
  - destruct s as [|c r]; [destruct k; reflexivity|]. simpl in Hn.
    assert (Hcopy : enc (c :: r) = c :: enc r -> prefixb up (skipn k (enc (c :: r))) = false).
    { intros E. rewrite E. destruct k as [|k]; [|apply IH; lia].
      cbn [skipn]. destruct (prefixb up (c :: enc r)) eqn:P; auto. exfalso.
      apply prefixb_up_cons in P. destruct P as [-> [t' Et]].
      (* enc r = "./"..., so r = "."::"/"::..., hence (c::r) matched: contradiction with E *)
      destruct r as [|c2 r2]; [discriminate|].
      destruct (enc_head c2 r2) as [t [H|H]]; rewrite H in Et; [|discriminate Et]. injection Et as Ec Et2. subst c2.
      destruct r2 as [|c3 r3].
      { change (enc [dotc]) with [dotc] in H. injection H as <-. discriminate. }
      assert (Hc3 : c3 = slc).
      { (* enc (dotc::c3::r3) = dotc :: slc :: t' *)
        destruct r3 as [|c4 r4].
        - change (enc [dotc; c3]) with [dotc; c3] in H. injection H as H. rewrite <- H in Et2. injection Et2 as Ec _. exact Ec.
        - rewrite enc_3 in H. destruct (_ && _ && _) eqn:M.
          + exfalso. injection H as H. discriminate.
          + apply (f_equal (@tl ascii)) in H. cbn [tl] in H. rewrite <- H in Et2. destruct (enc_head c3 (c4 :: r4)) as [t2 [H2|H2]]; rewrite H2 in Et2; [|discriminate Et2].
            injection Et2 as E1 E2. exact E1. }
      subst c3. rewrite enc_3 in E. rewrite !Ascii.eqb_refl in E. cbn [andb] in E.
      assert (L : length (PH ++ enc r3) = length (dotc :: enc (dotc :: slc :: r3))) by now rewrite E.
      (* first characters differ *)
      change PH with (us :: list_ascii_of_string "_parent__") in E. discriminate E. }
    destruct r as [|c2 [|c3 r']]; try (apply Hcopy; reflexivity).
    destruct (Ascii.eqb c dotc && Ascii.eqb c2 dotc && Ascii.eqb c3 slc) eqn:M.
    + rewrite enc_3, M.
      destruct (Nat.lt_ge_cases k 10) as [L|L].
      * apply ph_suffix_safe; auto.
      * replace k with (length PH + (k - 10)) by (change (length PH) with 10; lia).
        rewrite skipn_app. rewrite skipn_all2 by (change (length PH) with 10; lia).
        replace (length PH + (k - 10) - length PH) with (k - 10) by lia. simpl app.
        apply IH. simpl in Hn. lia.
    + apply Hcopy. rewrite enc_3, M. reflexivity.
Qed.

(* C13_encode_safe: the temp path of any path contains no "../" *)
Theorem C13_no_parent_in_temp_path s k : prefixb up (skipn k (replace_all up PH s)) = false.
Proof. rewrite replace_all_up_enc. apply (no_up_in_enc (length s)). lia. Qed.
Print Assumptions C13_no_parent_in_temp_path.
