From Coq Require Import List Arith Lia Bool.
Import ListNotations.

(* Per-task program counter for slot handling, mirroring Task.Execute /
   Workflow.IncConcurrentTasks / DecConcurrentTasks *)
Inductive pc :=
| Idle                 (* before IncConcurrentTasks *)
| WaitLock             (* blocked on concurrentTasksMx.Lock *)
| Depositing (k : nat) (* holds mutex, k tokens deposited so far *)
| Running              (* mutex released, command executing *)
| Releasing (k : nat)  (* command + finalize done, k tokens still to remove *)
| Finished.

Record task := { cores : nat; st : pc }.

Record state := { cap : nat; tokens : nat; mutex : option nat; tasks : list task }.

Fixpoint upd (l : list task) (i : nat) (t : task) : list task :=
  match l, i with
  | [], _ => []
  | _ :: r, O => t :: r
  | a :: r, S j => a :: upd r j t
  end.

Definition set_pc (t : task) (p : pc) := {| cores := cores t; st := p |}.

(* one atomic action of task i *)
Definition step (s : state) (i : nat) : option state :=
  match nth_error (tasks s) i with
  | None => None
  | Some t =>
    match st t with
    | Idle => Some {| cap := cap s; tokens := tokens s; mutex := mutex s; tasks := upd (tasks s) i (set_pc t WaitLock) |}
    | WaitLock =>
      match mutex s with
      | Some _ => None
      | None => Some {| cap := cap s; tokens := tokens s; mutex := Some i; tasks := upd (tasks s) i (set_pc t (Depositing 0)) |}
      end
    | Depositing k =>
      if Nat.eqb k (cores t)
      then Some {| cap := cap s; tokens := tokens s; mutex := None; tasks := upd (tasks s) i (set_pc t Running) |}
      else if Nat.ltb (tokens s) (cap s)
           then Some {| cap := cap s; tokens := S (tokens s); mutex := mutex s; tasks := upd (tasks s) i (set_pc t (Depositing (S k))) |}
           else None
    | Running => Some {| cap := cap s; tokens := tokens s; mutex := mutex s; tasks := upd (tasks s) i (set_pc t (Releasing (cores t))) |}
    | Releasing 0 => Some {| cap := cap s; tokens := tokens s; mutex := mutex s; tasks := upd (tasks s) i (set_pc t Finished) |}
    | Releasing (S k) =>
      match tokens s with
      | 0 => None
      | S n => Some {| cap := cap s; tokens := n; mutex := mutex s; tasks := upd (tasks s) i (set_pc t (Releasing k)) |}
      end
    | Finished => None
    end
  end.

Definition held (t : task) : nat :=
  match st t with
  | Depositing k => k
  | Running => cores t
  | Releasing k => k
  | _ => 0
  end.

Definition executing (t : task) : nat :=
  match st t with Running => cores t | _ => 0 end.

Fixpoint tsum (f : task -> nat) (l : list task) : nat := match l with [] => 0 | t :: r => f t + tsum f r end.

Definition Inv (s : state) : Prop :=
  tokens s <= cap s /\ tsum held (tasks s) = tokens s.

Lemma sum_app f l1 l2 : tsum f (l1 ++ l2) = tsum f l1 + tsum f l2.
Proof. induction l1; simpl; lia. Qed.

Lemma sum_upd f l i t t' :
  nth_error l i = Some t -> tsum f (upd l i t') + f t = tsum f l + f t'.
Proof.
  revert i; induction l as [|a l IH]; intros [|i] H; simpl in *; try discriminate.
  - inversion H; subst. lia.
  - specialize (IH i H). lia.
Qed.

Lemma executing_le_held t : executing t <= held t.
Proof. unfold executing, held; destruct (st t); lia. Qed.

Lemma sum_le f g l : (forall t, f t <= g t) -> tsum f l <= tsum g l.
Proof. intros H; induction l; simpl; [lia|]. specialize (H a). lia. Qed.

Lemma held_set t p : held (set_pc t p) =
  match p with Depositing k => k | Running => cores t | Releasing k => k | _ => 0 end.
Proof. destruct p; reflexivity. Qed.

Lemma step_inv s i s' : Inv s -> step s i = Some s' -> Inv s'.
Proof.
  unfold Inv, step. intros [Hc Hs].
  destruct (nth_error (tasks s) i) as [t|] eqn:Hn; [|discriminate].
  pose proof (fun t' => sum_upd held (tasks s) i t t' Hn) as Hu.
  assert (Ht : held t = match st t with Depositing k => k | Running => cores t | Releasing k => k | _ => 0 end) by reflexivity.
  destruct (st t) eqn:Hst;
    repeat match goal with
    | |- context [match ?x with _ => _ end] => destruct x eqn:?
    end; try discriminate;
    intros H; inversion H; subst; clear H; simpl;
    match goal with |- context [upd _ _ (set_pc t ?p)] => specialize (Hu (set_pc t p)); rewrite held_set in Hu end;
    repeat match goal with
    | E : Nat.eqb _ _ = true |- _ => apply Nat.eqb_eq in E
    | E : Nat.ltb _ _ = true |- _ => apply Nat.ltb_lt in E
    end; lia.
Qed.

Fixpoint run (s : state) (sched : list nat) : option state :=
  match sched with
  | [] => Some s
  | i :: r => match step s i with Some s' => run s' r | None => None end
  end.

Theorem C06_slots_never_exceeded :
  forall s sched s', Inv s -> run s sched = Some s' -> tsum executing (tasks s') <= cap s'.
Proof.
  intros s sched; revert s; induction sched as [|i r IH]; simpl; intros s s' HI H.
  - inversion H; subst. destruct HI as [Hc Hs]. pose proof (sum_le executing held (tasks s') executing_le_held). lia.
  - destruct (step s i) eqn:E; [|discriminate]. eapply IH; [eapply step_inv; eassumption | exact H].
Qed.
Print Assumptions C06_slots_never_exceeded.
