From Coq Require Import List Arith Lia Bool PeanoNat.
Import ListNotations.
Require Import NetA Inv Pres Dead.

Section Top.
Variable c : cfg.
Variable len : nat -> nat.
Hypothesis WF : wf c len.

Fixpoint sched_ok (sched : list act) : Prop :=
  match sched with [] => True | a :: r => node_of a < nn c /\ sched_ok r end.

Lemma run_inv sched : forall s s', Inv c len s -> sched_ok sched -> run c s sched = Some s' -> Inv c len s'.
Proof.
  induction sched as [|a r IH]; simpl; intros s s' HI Hok H.
  - inversion H; subst; assumption.
  - destruct Hok as [Ha Hr]. destruct (step c s a) eqn:E; [|discriminate].
    apply (IH s0 s'); auto. apply (step_inv c len WF s a s0); auto.
Qed.

(* C05 core: no reachable state of a merge-free, balanced, acyclic rate-1 network
   with capacity >= 1 is stuck, whatever the schedule. *)
Theorem reachable_not_stuck sched s :
  sched_ok sched -> run c (init c) sched = Some s ->
  (exists v, v < nn c /\ rn (ns s v) <> RFin) ->
  exists a, node_of a < nn c /\ step c s a <> None.
Proof.
  intros Hok Hrun Hun. eapply no_deadlock; eauto.
  eapply run_inv; eauto. apply init_inv.
Qed.
End Top.
Print Assumptions reachable_not_stuck.

(* non-vacuity: a diamond  0 -> 1 -> 3, 0 -> 2 -> 3, source of 2 items, capacity 1 *)
Definition dia : cfg := {| nn := 4; edges := [(0,1);(0,2);(1,3);(2,3)];
                           slen := fun v => if Nat.eqb v 0 then Some 2 else None; cap := 1; epar := fun _ => false |}.
Lemma dia_wf : wf dia (fun _ => 2).
Proof.
  constructor; simpl.
  - intros e He. unfold E in He; simpl in He. unfold esrc, edst; simpl.
    destruct e as [|[|[|[|e]]]]; simpl; lia.
  - lia.
  - intros v L. destruct (Nat.eqb_spec v 0); [|discriminate]. subst. intros H; inversion H; subst. split; reflexivity.
  - intros v Hv. destruct v as [|[|[|[|v]]]]; simpl; try discriminate; try lia; intros _; cbv; discriminate.
  - reflexivity.
Qed.
