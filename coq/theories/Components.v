(* Executable models of the bundled components (C19), on byte strings.  Definitions and their theorems about the
   generic functions of Comb.v / Splitter.v instantiated here. *)
From Coq Require Import List Ascii Arith Lia Bool.
Import ListNotations.
From SP Require Import Str PathLex Comb Splitter.

(* IPSelectorSync: rows are the aligned tuples (one item per port); a row is forwarded iff all members satisfy the predicate *)
Definition selector {A} (pred : A -> bool) (rows : list (list A)) : list (list A) := filter (forallb pred) rows.

Lemma selector_spec {A} (pred : A -> bool) rows r :
  In r (selector pred rows) <-> In r rows /\ forall x, In x r -> pred x = true.
Proof. unfold selector. rewrite filter_In, forallb_forall. tauto. Qed.

Lemma selector_order {A} (pred : A -> bool) rows1 rows2 :
  selector pred (rows1 ++ rows2) = selector pred rows1 ++ selector pred rows2.
Proof. unfold selector. apply filter_app. Qed.

(* Concatenator: every input's content, in arrival order, each followed by a newline *)
Definition concat_out (contents : list (list nat)) : list nat := concat (map (fun c => c ++ [LF]) contents).

Lemma concat_out_app a b : concat_out (a ++ b) = concat_out a ++ concat_out b.
Proof. unfold concat_out. now rewrite map_app, concat_app. Qed.

(* FileSplitter on bytes: parts as byte strings *)
Definition split_bytes (n : nat) (s : list nat) : list (list nat) := map render (split n (lines_of s)).

(* FileToParamsReader / CommandToParams: one parameter per line (bufio.ScanLines / strings.Split semantics differ:
   the reader uses a Scanner, the command component splits on "\n" and drops a trailing empty piece) *)
Definition reader_lines (s : list nat) : list (list nat) := lines_of s.
