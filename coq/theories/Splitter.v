(* Prototype: FileSplitter (C19): bufio.ScanLines model, the split loop, conservation and size bound. *)
From Coq Require Import List Arith Lia Bool.
Import ListNotations.

Definition byte := nat.
Definition LF : byte := 10.
Definition CR : byte := 13.

Definition dropCR (l : list byte) : list byte :=
  match rev l with c :: r => if Nat.eqb c CR then rev r else l | [] => l end.

(* bufio.ScanLines over the whole file (token size limit handled separately) *)
Fixpoint scan_lines (s : list byte) (cur : list byte) : list (list byte) :=
  match s with
  | [] => match cur with [] => [] | _ => [dropCR (rev cur)] end
  | c :: r => if Nat.eqb c LF then dropCR (rev cur) :: scan_lines r [] else scan_lines r (c :: cur)
  end.
Definition lines_of (s : list byte) := scan_lines s [].

(* the loop of FileSplitter.Run, with its two counters *)
Fixpoint go {A} (n : nat) (ls : list A) (lineNo splitNo : nat) (cur : list A) (done : list (list A)) : list (list A) :=
  match ls with
  | [] => rev (rev cur :: done)
  | l :: r =>
    if Nat.eqb lineNo (splitNo * n)
    then go n r (S lineNo) (S splitNo) [] (rev (l :: cur) :: done)
    else go n r (S lineNo) splitNo (l :: cur) done
  end.
Definition split {A} (n : nat) (ls : list A) : list (list A) := go n ls 1 1 [] [].

Lemma go_concat {A} n (ls : list A) : forall lineNo splitNo cur done,
  concat (go n ls lineNo splitNo cur done) = concat (rev done) ++ rev cur ++ ls.
Proof.
  induction ls as [|l r IH]; intros; simpl.
  - rewrite concat_app. simpl. now rewrite !app_nil_r.
  - destruct (Nat.eqb lineNo (splitNo * n)); rewrite IH; simpl.
    + rewrite concat_app. simpl. rewrite app_nil_r, <- !app_assoc. reflexivity.
    + rewrite <- !app_assoc. reflexivity.
Qed.

(* C19_split (lines): the parts, concatenated, are the lines of the input, in order *)
Theorem split_conserves {A} n (ls : list A) : concat (split n ls) = ls.
Proof. unfold split. rewrite go_concat. reflexivity. Qed.

Lemma go_bound {A} n (ls : list A) : 1 <= n -> forall lineNo splitNo cur done,
  1 <= splitNo -> lineNo = (splitNo - 1) * n + length cur + 1 -> length cur < n ->
  Forall (fun p => length p <= n) done ->
  Forall (fun p => length p <= n) (go n ls lineNo splitNo cur done).
Proof.
  intros Hn. induction ls as [|l r IH]; intros lineNo splitNo cur done Hs Hl Hc Hd; simpl.
  - apply Forall_app. split; [apply Forall_rev; auto|]. constructor; [rewrite rev_length; lia|constructor].
  - destruct (Nat.eqb_spec lineNo (splitNo * n)) as [E|E].
    + apply IH; auto; try lia.
      * simpl. nia.
      * constructor; auto. change (length (rev (l :: cur)) <= n). rewrite rev_length. simpl. nia.
    + apply IH; auto; simpl; try lia. nia.
Qed.

(* C19_split (bound): no part has more than n lines *)
Theorem split_bound {A} n (ls : list A) : 1 <= n -> Forall (fun p => length p <= n) (split n ls).
Proof. intros Hn. unfold split. apply go_bound; auto; simpl; lia. Qed.

(* bytes: every part is written as its lines, each followed by LF *)
Definition render (p : list (list byte)) : list byte := concat (map (fun l => l ++ [LF]) p).
Definition normalise (s : list byte) : list byte := render (lines_of s).

Theorem C19_split_bytes n (s : list byte) :
  concat (map render (split n (lines_of s))) = normalise s.
Proof.
  unfold normalise, render. rewrite <- (split_conserves n (lines_of s)) at 2.
  generalize (split n (lines_of s)). intros ps. induction ps as [|p ps IH]; simpl; auto.
  rewrite map_app, concat_app, IH. reflexivity.
Qed.

Print Assumptions C19_split_bytes.
Print Assumptions split_bound.
