(* C16, wiring operations: the ready flag of a port says exactly "has a remote port"; after the reconnection step of
   runProcs every out-port of a selected process has a consumer -- the sink if nobody else. *)
From Coq Require Import List Arith Lia Bool.
Import ListNotations.

(* out-ports and in-ports are numbered; the sink's in-port is in-port 0 *)
Record wiring := {
  orem : nat -> list nat;      (* out-port -> connected in-ports (OutPort.RemotePorts) *)
  irem : nat -> list nat;      (* in-port -> connected out-ports (InPort.RemotePorts) *)
  oready : nat -> bool;
  iready : nat -> bool
}.

Definition upd {A} (f : nat -> A) (i : nat) (a : A) : nat -> A := fun j => if Nat.eqb j i then a else f j.
Lemma upd_same {A} (f : nat -> A) i a : upd f i a i = a.
Proof. unfold upd. now rewrite Nat.eqb_refl. Qed.
Lemma upd_other {A} (f : nat -> A) i a j : j <> i -> upd f i a j = f j.
Proof. unfold upd. intros H. destruct (Nat.eqb_spec j i); congruence. Qed.

Definition empty : wiring := {| orem := fun _ => []; irem := fun _ => []; oready := fun _ => false; iready := fun _ => false |}.

(* OutPort.To / InPort.From *)
Definition connect (w : wiring) (o i : nat) : wiring :=
  {| orem := upd (orem w) o (i :: orem w o); irem := upd (irem w) i (o :: irem w i);
     oready := upd (oready w) o true; iready := upd (iready w) i true |}.

(* OutPort.Disconnect: removes the in-port from the out-port's remotes; the flag drops when none is left *)
Definition disconnect_out (w : wiring) (o i : nat) : wiring :=
  let r := remove Nat.eq_dec i (orem w o) in
  {| orem := upd (orem w) o r; irem := irem w;
     oready := upd (oready w) o (match r with [] => false | _ => oready w o end); iready := iready w |}.

Definition OutInv (w : wiring) : Prop := forall o, oready w o = true <-> orem w o <> [].
Definition InInv (w : wiring) : Prop := forall i, iready w i = true <-> irem w i <> [].

Lemma empty_inv : OutInv empty /\ InInv empty.
Proof. split; intros x; simpl; (split; [discriminate|congruence]). Qed.

Lemma connect_inv w o i : OutInv w -> InInv w -> OutInv (connect w o i) /\ InInv (connect w o i).
Proof.
  intros HO HI. split; intros x; simpl.
  - destruct (Nat.eq_dec x o) as [->|Hne].
    + rewrite !upd_same. split; [discriminate|reflexivity].
    + rewrite !upd_other by assumption. apply HO.
  - destruct (Nat.eq_dec x i) as [->|Hne].
    + rewrite !upd_same. split; [discriminate|reflexivity].
    + rewrite !upd_other by assumption. apply HI.
Qed.

Lemma disconnect_inv w o i : OutInv w -> InInv w -> OutInv (disconnect_out w o i) /\ InInv (disconnect_out w o i).
Proof.
  intros HO HI. split; [|exact HI]. intros x. simpl.
  destruct (Nat.eq_dec x o) as [->|Hne].
  - rewrite !upd_same. destruct (remove Nat.eq_dec i (orem w o)) as [|a r] eqn:E.
    + split; [discriminate|congruence].
    + split; [discriminate|]. intros _. apply HO. intros C. rewrite C in E. simpl in E. discriminate.
  - rewrite !upd_other by assumption. apply HO.
Qed.

(* the ready flag is an invariant of any sequence of wiring operations *)
Inductive wop := Connect (o i : nat) | Disconnect (o i : nat).
Definition apply_op (w : wiring) (op : wop) : wiring :=
  match op with Connect o i => connect w o i | Disconnect o i => disconnect_out w o i end.

Theorem ready_flag_invariant (ops : list wop) : let w := fold_left apply_op ops empty in OutInv w /\ InInv w.
Proof.
  assert (G : forall ops w, OutInv w /\ InInv w -> OutInv (fold_left apply_op ops w) /\ InInv (fold_left apply_op ops w)).
  { clear. induction ops as [|op ops IH]; intros w [HO HI]; simpl; auto.
    apply IH. destruct op; [apply connect_inv|apply disconnect_inv]; auto. }
  apply G. apply empty_inv.
Qed.

(* reconnectDeadEndConnections for one out-port: drop the consumers that are not selected, then, if nothing is left,
   connect the port to the sink (in-port 0) *)
Definition reconnect_port (sel : nat -> bool) (w : wiring) (o : nat) : wiring :=
  let w1 := fold_left (fun (w : wiring) (i : nat) => if sel i then w else disconnect_out w o i) (orem w o) w in
  if oready w1 o then w1 else connect w1 o 0.

Lemma fold_disc_inv (sel : nat -> bool) (o : nat) (l : list nat) : forall w, OutInv w /\ InInv w ->
  OutInv (fold_left (fun (w : wiring) (i : nat) => if sel i then w else disconnect_out w o i) l w) /\
  InInv (fold_left (fun (w : wiring) (i : nat) => if sel i then w else disconnect_out w o i) l w).
Proof.
  induction l as [|i l IH]; intros w H; simpl; auto.
  apply IH. destruct (sel i); auto. destruct H. apply disconnect_inv; auto.
Qed.

(* dangling out-ports are drained: after reconnection the port is ready and has at least one consumer *)
Theorem dangling_drained (sel : nat -> bool) (w : wiring) (o : nat) : OutInv w -> InInv w ->
  let w' := reconnect_port sel w o in oready w' o = true /\ orem w' o <> [] /\ OutInv w' /\ InInv w'.
Proof.
  intros HO HI. unfold reconnect_port. cbv zeta.
  set (w1 := fold_left (fun (w : wiring) (i : nat) => if sel i then w else disconnect_out w o i) (orem w o) w).
  destruct (fold_disc_inv sel o (orem w o) w (conj HO HI)) as [HO1 HI1]. fold w1 in HO1, HI1.
  destruct (oready w1 o) eqn:R.
  - split; [exact R|]. split; [apply HO1; exact R|]. split; assumption.
  - destruct (connect_inv w1 o 0 HO1 HI1) as [HO2 HI2].
    split; [simpl; apply upd_same|]. split; [simpl; rewrite upd_same; discriminate|]. split; assumption.
Qed.
