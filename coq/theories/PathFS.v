(* C13 at the level of path segments and a file store with directories: where the file written at an output placeholder
   ends up, how an input placeholder resolves from inside the temp directory, where additional files go.

   Paths are lists of segments.  An output path is canonical: k leading "..", then proper segments (not "", ".", ".."),
   or absolute.  [enc] is FileIP.TempPath on that form: "../" becomes the text "__parent__" glued to what follows, a
   leading "/" becomes the segment "__fsroot__".  The store maps absolute segment lists to nodes; [mkdir_all], [write]
   and [rename] behave as os.MkdirAll / a shell redirection / os.Rename (within one file system, no symlinks). *)
From Coq Require Import List Ascii String Arith Lia Bool.
Import ListNotations.
From SP Require Import Str PathLex.

Definition seg := str.
Definition PHs : str := list_ascii_of_string "__parent__".
Definition FSR : str := list_ascii_of_string "__fsroot__".
Definition dd : seg := [dot; dot].

Definition properb (g : seg) : bool := negb (str_eqb g []) && negb (str_eqb g [dot]) && negb (str_eqb g dd) && negb (existsb (Ascii.eqb sl) g).
Definition proper (g : seg) : Prop := properb g = true.

(* lexical resolution of a relative segment list against an absolute directory (kept reversed) *)
Fixpoint res_rev (st : list seg) (rel : list seg) : list seg :=
  match rel with
  | [] => st
  | g :: r => if str_eqb g [] || str_eqb g [dot] then res_rev st r
              else if str_eqb g dd then res_rev (tl st) r
              else res_rev (g :: st) r
  end.
Definition resolve (cwd : list seg) (rel : list seg) : list seg := rev (res_rev (rev cwd) rel).

(* ---- output paths and their temp-path encoding ---- *)
Inductive opath :=
| ORel (k : nat) (segs : list seg)      (* k times "../", then segs *)
| OAbs (segs : list seg).

Fixpoint rep {A} (k : nat) (x : list A) : list A := match k with O => [] | S n => x ++ rep n x end.

Definition rel_of (p : opath) : list seg :=          (* the declared path as written, as a relative segment list *)
  match p with ORel k segs => rep k [dd] ++ segs | OAbs segs => segs end.

Definition target (cwd : list seg) (p : opath) : list seg :=
  match p with ORel k segs => resolve cwd (rep k [dd] ++ segs) | OAbs segs => segs end.

Definition enc (p : opath) : list seg :=
  match p with
  | ORel O segs => segs
  | ORel (S k) [] => [rep (S k) PHs]
  | ORel (S k) (s :: r) => (rep (S k) PHs ++ s) :: r
  | OAbs segs => FSR :: segs
  end.

Definition canonical (p : opath) : Prop :=
  match p with ORel _ segs | OAbs segs => segs <> [] /\ Forall proper segs end.

(* ---- the store ---- *)
Inductive node := File (c : nat) | Dir.
Definition store := list seg -> option node.

Fixpoint seg_list_eqb (a b : list seg) : bool :=
  match a, b with
  | [], [] => true
  | x :: r, y :: r' => str_eqb x y && seg_list_eqb r r'
  | _, _ => false
  end.

Lemma str_eqb_eq a b : str_eqb a b = true <-> a = b.
Proof. unfold str_eqb. destruct (list_eq_dec ascii_dec a b); split; intros; auto; discriminate. Qed.
Lemma str_eqb_refl a : str_eqb a a = true.
Proof. apply str_eqb_eq. reflexivity. Qed.

Lemma seg_list_eqb_eq a : forall b, seg_list_eqb a b = true <-> a = b.
Proof.
  induction a as [|x r IH]; intros [|y r']; simpl; split; intros H; try discriminate; auto.
  - apply andb_true_iff in H. destruct H as [H1 H2]. apply str_eqb_eq in H1. apply IH in H2. now subst.
  - injection H as -> ->. rewrite str_eqb_refl. simpl. now apply IH.
Qed.

Definition put (f : store) (p : list seg) (n : node) : store := fun q => if seg_list_eqb q p then Some n else f q.
Definition del (f : store) (p : list seg) : store := fun q => if seg_list_eqb q p then None else f q.

Definition is_dir (f : store) (p : list seg) : bool := match p with [] => true | _ => match f p with Some Dir => true | _ => false end end.

(* os.MkdirAll: every prefix becomes a directory (fails on a file in the way: not needed here) *)
Fixpoint mkdir_from (f : store) (base : list seg) (rest : list seg) : store :=
  match rest with
  | [] => f
  | g :: r => mkdir_from (put f (base ++ [g]) Dir) (base ++ [g]) r
  end.
Definition mkdir_all (f : store) (p : list seg) : store := mkdir_from f [] p.

Definition parent (p : list seg) : list seg := removelast p.

Definition write (f : store) (p : list seg) (c : nat) : option store :=
  if is_dir f (parent p) then Some (put f p (File c)) else None.

Definition rename (f : store) (a b : list seg) : option store :=
  match f a with
  | Some (File c) => if is_dir f (parent b) then Some (put (del f a) b (File c)) else None
  | _ => None
  end.

(* ---- what a task does with one output (Task.createDirs, the command, the audit write, FinalizePaths) ---- *)
Definition task_out (cwd : list seg) (D : seg) (p : opath) (c : nat) (f : store) : option store :=
  let tdir := cwd ++ [D] in
  let f1 := mkdir_all (mkdir_all f tdir) (tdir ++ parent (enc p)) in               (* Task.createDirs *)
  match write f1 (resolve tdir (enc p)) c with                                     (* the command, cd'ed into the temp dir, writes at {o:..} = TempPath *)
  | None => None
  | Some f2 =>
    let f3 := mkdir_all f2 (cwd ++ parent (enc p)) in                              (* WriteAuditLogToFile: ip.createDirs("") *)
    rename f3 (cwd ++ [D] ++ enc p) (target cwd p)                                 (* FinalizePaths: tempExecDir + "/" + TempPath -> Path *)
  end.

(* ================================================================== lemmas *)

Lemma proper_not_special g : proper g -> str_eqb g [] = false /\ str_eqb g [dot] = false /\ str_eqb g dd = false.
Proof.
  unfold proper, properb. intros H. repeat (apply andb_true_iff in H; destruct H as [H ?]).
  repeat split; apply negb_true_iff; assumption.
Qed.

Lemma res_rev_proper rel : Forall proper rel -> forall st, res_rev st rel = rev rel ++ st.
Proof.
  induction 1 as [|g r Hg Hr IH]; intros st; simpl; auto.
  destruct (proper_not_special g Hg) as [A [B C]]. rewrite A, B, C. simpl. rewrite IH. now rewrite <- app_assoc.
Qed.

(* a list of proper segments resolves to itself appended: nothing climbs out *)
Lemma resolve_proper cwd rel : Forall proper rel -> resolve cwd rel = cwd ++ rel.
Proof. intros H. unfold resolve. rewrite res_rev_proper by assumption. now rewrite rev_app_distr, !rev_involutive. Qed.

Lemma rep_PHs_head k s : exists t, rep (S k) PHs ++ s = "_"%char :: t.
Proof. simpl. eexists. reflexivity. Qed.

Lemma no_slash_PHs : existsb (Ascii.eqb sl) PHs = false.
Proof. reflexivity. Qed.

Lemma existsb_app_false {A} (f : A -> bool) l1 l2 : existsb f l1 = false -> existsb f l2 = false -> existsb f (l1 ++ l2) = false.
Proof. intros H1 H2. rewrite existsb_app, H1, H2. reflexivity. Qed.

Lemma no_slash_rep k : existsb (Ascii.eqb sl) (rep k PHs) = false.
Proof. induction k; simpl; auto. Qed.

Lemma proper_glued k s : (s = [] \/ proper s) -> proper (rep (S k) PHs ++ s).
Proof.
  intros Hs. unfold proper, properb.
  assert (Hne : forall x, str_eqb (rep (S k) PHs ++ s) x = true -> exists t, x = "_"%char :: "_"%char :: t).
  { intros x E. apply str_eqb_eq in E. subst. simpl. eexists. reflexivity. }
  assert (E1 : str_eqb (rep (S k) PHs ++ s) [] = false).
  { destruct (str_eqb (rep (S k) PHs ++ s) []) eqn:E; auto; try (destruct (Hne _ E) as [t Ht]; discriminate). }
  assert (E2 : str_eqb (rep (S k) PHs ++ s) [dot] = false).
  { destruct (str_eqb (rep (S k) PHs ++ s) [dot]) eqn:E; auto; try (destruct (Hne _ E) as [t Ht]; discriminate). }
  assert (E3 : str_eqb (rep (S k) PHs ++ s) dd = false).
  { destruct (str_eqb (rep (S k) PHs ++ s) dd) eqn:E; auto; try (destruct (Hne _ E) as [t Ht]; discriminate). }
  rewrite E1, E2, E3. simpl.
  apply negb_true_iff. change (PHs ++ rep k PHs ++ s) with (rep (S k) PHs ++ s).
  apply existsb_app_false; [apply no_slash_rep|].
  destruct Hs as [->|Hs]; [reflexivity|].
  unfold proper, properb in Hs. repeat (apply andb_true_iff in Hs; destruct Hs as [Hs ?]). now apply negb_true_iff.
Qed.

Lemma proper_FSR : proper FSR.
Proof. reflexivity. Qed.

(* C13_encode_safe: the temp path of a canonical output path consists of proper segments only: no "..", relative *)
Theorem enc_proper p : canonical p -> Forall proper (enc p) /\ enc p <> [].
Proof.
  destruct p as [[|k] segs|segs]; simpl; intros [Hne Hp].
  - split; assumption.
  - destruct segs as [|s r]; [congruence|]. inversion Hp; subst. split; [|discriminate].
    constructor; auto. apply proper_glued. right. assumption.
  - split; [|discriminate]. constructor; auto. apply proper_FSR.
Qed.

(* ... hence, from inside the temp dir, it names a location beneath the temp dir: the very location FinalizePaths renames *)
Theorem temp_location cwd D p : canonical p -> resolve (cwd ++ [D]) (enc p) = cwd ++ [D] ++ enc p.
Proof. intros H. destruct (enc_proper p H) as [Hp _]. rewrite resolve_proper by assumption. now rewrite <- app_assoc. Qed.

(* C13_in_resolves: an input referenced as "../" ++ q from inside the temp dir (one proper segment D below cwd) is the
   input itself, for every relative q (leading "..", ".", empty segments included) *)
Theorem in_resolves cwd D q : proper D -> resolve (cwd ++ [D]) (dd :: q) = resolve cwd q.
Proof.
  intros HD. unfold resolve. rewrite rev_app_distr. reflexivity.
Qed.

(* ---- store lemmas ---- *)
Lemma put_same f p n : put f p n p = Some n.
Proof. unfold put. assert (seg_list_eqb p p = true) by (apply seg_list_eqb_eq; reflexivity). now rewrite H. Qed.
Lemma put_other f p n q : q <> p -> put f p n q = f q.
Proof. unfold put. intros H. destruct (seg_list_eqb q p) eqn:E; auto. apply seg_list_eqb_eq in E. congruence. Qed.
Lemma del_same f p : del f p p = None.
Proof. unfold del. assert (seg_list_eqb p p = true) by (apply seg_list_eqb_eq; reflexivity). now rewrite H. Qed.
Lemma del_other f p q : q <> p -> del f p q = f q.
Proof. unfold del. intros H. destruct (seg_list_eqb q p) eqn:E; auto. apply seg_list_eqb_eq in E. congruence. Qed.

(* after MkdirAll of base ++ rest (base being a directory or the root), every prefix between is a directory *)
Lemma mkdir_from_dir rest : forall f base pre suf, rest = pre ++ suf -> pre <> [] ->
  mkdir_from f base rest (base ++ pre) = Some Dir.
Proof.
  induction rest as [|g r IH]; intros f base pre suf E Hne.
  - destruct pre; [congruence|discriminate].
  - destruct pre as [|g' pre']; [congruence|]. simpl in E. injection E as <- E. simpl.
    destruct pre' as [|g2 pre2].
    + (* the first new directory: later steps only add longer paths *)
      clear IH Hne. generalize (put f (base ++ [g]) Dir) (put_same f (base ++ [g]) Dir). intros f' Hf'.
      assert (G : forall r f' b, (exists x, b = (base ++ [g]) ++ x) -> f' (base ++ [g]) = Some Dir -> mkdir_from f' b r (base ++ [g]) = Some Dir).
      { clear. induction r as [|h r IH]; intros f' b [x Hb] Hf; simpl; auto.
        apply IH.
        - exists (x ++ [h]). rewrite Hb. now rewrite <- !app_assoc.
        - rewrite put_other; auto. rewrite Hb. intros C.
          apply (f_equal (@length seg)) in C. rewrite !app_length in C. simpl in C. lia. }
      apply G; auto. exists []. now rewrite app_nil_r.
    + replace (base ++ g :: g2 :: pre2) with ((base ++ [g]) ++ g2 :: pre2) by now rewrite <- app_assoc.
      eapply IH; [exact E|discriminate].
Qed.

Lemma mkdir_all_is_dir f p : is_dir (mkdir_all f p) p = true.
Proof.
  destruct p as [|g r]; [reflexivity|]. unfold is_dir, mkdir_all.
  pose proof (mkdir_from_dir (g :: r) f [] (g :: r) [] (eq_sym (app_nil_r _))) as H. simpl app in H.
  rewrite H; [reflexivity|discriminate].
Qed.

Lemma mkdir_from_frame rest : forall f base q, (forall pre suf, rest = pre ++ suf -> pre <> [] -> q <> base ++ pre) ->
  mkdir_from f base rest q = f q.
Proof.
  induction rest as [|g r IH]; intros f base q H; simpl; auto.
  rewrite IH.
  - apply put_other. apply (H [g] r); [reflexivity|discriminate].
  - intros pre suf E Hne. rewrite <- app_assoc. apply (H (g :: pre) suf); [simpl; now rewrite E|discriminate].
Qed.

(* MkdirAll keeps the directories that exist *)
Lemma mkdir_all_keeps_dir f p q : is_dir f q = true -> is_dir (mkdir_all f p) q = true.
Proof.
  intros H. destruct q as [|a q']; [reflexivity|]. unfold is_dir in *. unfold mkdir_all.
  assert (G : forall rest f base, match f (a :: q') with Some Dir => True | _ => False end ->
              match mkdir_from f base rest (a :: q') with Some Dir => True | _ => False end).
  { induction rest as [|g r IH]; intros f0 base H0; simpl; auto.
    apply IH. unfold put. destruct (seg_list_eqb (a :: q') (base ++ [g])); auto. }
  specialize (G p f []). destruct (f (a :: q')) as [[c|]|]; try discriminate.
  destruct (mkdir_from f [] p (a :: q')) as [[c|]|]; auto; exfalso; apply G; exact I.
Qed.

Lemma removelast_app_last {A} (l : list A) x : removelast (l ++ [x]) = l.
Proof. apply removelast_last. Qed.

Lemma parent_app (a b : list seg) : b <> [] -> parent (a ++ b) = a ++ parent b.
Proof. intros H. unfold parent. apply removelast_app. exact H. Qed.

(* ================================================================== the main statement *)

Definition beneath (a b : list seg) : Prop := exists x, b = a ++ x.

Lemma parent_eq_beneath (t s0 : list seg) : s0 <> [] -> parent t = s0 -> beneath s0 t.
Proof.
  intros Hne E. destruct t as [|a l]; [simpl in E; congruence|].
  exists [last (a :: l) a]. rewrite <- E. unfold parent. apply app_removelast_last. discriminate.
Qed.

(* C13_out_lands: for every canonical output path, every working directory, every proper temp-dir name and every store
   in which the destination directory exists when it lies outside the working directory (parent-relative, absolute), the
   destination not lying inside the task's own temp dir: the task step succeeds and afterwards the file the command wrote
   is at exactly the declared path, and no longer in the temp dir *)
Theorem out_lands cwd D p c f :
  canonical p -> proper D ->
  (match p with ORel O _ => True | _ => is_dir f (parent (target cwd p)) = true end) ->
  ~ beneath (cwd ++ [D]) (target cwd p) ->
  exists f', task_out cwd D p c f = Some f' /\ f' (target cwd p) = Some (File c) /\ f' (cwd ++ [D] ++ enc p) = None.
Proof.
  intros Hc HD Hdir Hout. unfold task_out.
  destruct (enc_proper p Hc) as [Hp Hne].
  rewrite (temp_location cwd D p Hc).
  set (tdir := cwd ++ [D]).
  set (f1 := mkdir_all (mkdir_all f tdir) (tdir ++ parent (enc p))).
  set (src := cwd ++ [D] ++ enc p) in *.
  assert (Hsrc : beneath (cwd ++ [D]) src) by (exists (enc p); unfold src; now rewrite <- app_assoc).
  assert (Hsrcne : src <> []) by (unfold src; destruct cwd; discriminate).
  assert (Hdiff : target cwd p <> src) by (intros C; apply Hout; rewrite C; exact Hsrc).
  assert (Hpar : parent (target cwd p) <> src).
  { intros C. apply Hout. destruct (parent_eq_beneath _ _ Hsrcne C) as [x Hx]. destruct Hsrc as [y Hy].
    exists (y ++ x). rewrite Hx, Hy. now rewrite <- app_assoc. }
  assert (W : is_dir f1 (parent src) = true).
  { replace src with (tdir ++ enc p) by (unfold tdir, src; now rewrite <- app_assoc).
    rewrite parent_app by assumption. apply mkdir_all_is_dir. }
  unfold write. rewrite W.
  set (f2 := put f1 src (File c)).
  set (f3 := mkdir_all f2 (cwd ++ parent (enc p))).
  assert (S3 : f3 src = Some (File c)).
  { unfold f3, mkdir_all. rewrite mkdir_from_frame.
    - unfold f2. apply put_same.
    - intros pre suf E Hpre C. simpl in C.
      assert (L : length pre <= length (cwd ++ parent (enc p))) by (rewrite E, app_length; lia).
      assert (L2 : length src = length pre) by now rewrite C.
      unfold src in L2. rewrite !app_length in L2, L. unfold parent in L.
      assert (length (removelast (enc p)) < length (enc p)).
      { destruct (enc p) as [|x l] eqn:Ee; [congruence|]. rewrite (app_removelast_last x (l:=x :: l)) at 2 by discriminate.
        rewrite app_length. simpl. lia. }
      simpl in L2. lia. }
  unfold rename. rewrite S3.
  assert (Keep : forall q, q <> src -> is_dir f q = true -> is_dir f3 q = true).
  { intros q Hq Hd. unfold f3. apply mkdir_all_keeps_dir. unfold f2.
    assert (K : is_dir f1 q = true) by (unfold f1; apply mkdir_all_keeps_dir; apply mkdir_all_keeps_dir; exact Hd).
    destruct q as [|a q']; [reflexivity|]. unfold is_dir in *. rewrite put_other by assumption. exact K. }
  assert (T : is_dir f3 (parent (target cwd p)) = true).
  { destruct p as [[|k] segs|segs].
    - simpl target. simpl enc in *. destruct Hc as [Hs Hps]. rewrite resolve_proper by assumption.
      rewrite parent_app by assumption. unfold f3. apply mkdir_all_is_dir.
    - apply Keep; assumption.
    - apply Keep; assumption. }
  rewrite T. eexists. split; [reflexivity|]. split.
  - apply put_same.
  - rewrite put_other by (intro C; apply Hdiff; now rewrite C). apply del_same.
Qed.

(* C13_extra_files: an additional file the command left at the relative location r (proper segments) of its working
   directory is moved to the same relative location under the workflow's directory (FinalizePaths: MkdirAll of the
   directory, then rename), whatever lay there before *)
Definition move_extra (cwd : list seg) (D : seg) (r : list seg) (f : store) : option store :=
  rename (mkdir_all f (cwd ++ parent r)) (cwd ++ [D] ++ r) (cwd ++ r).

Theorem extra_lands cwd D r c f :
  Forall proper r -> r <> [] -> proper D ->
  f (cwd ++ [D] ++ r) = Some (File c) ->
  ~ beneath (cwd ++ [D]) (cwd ++ r) ->
  exists f', move_extra cwd D r f = Some f' /\ f' (cwd ++ r) = Some (File c) /\ f' (cwd ++ [D] ++ r) = None.
Proof.
  intros Hp Hne HD Hf Hout. unfold move_extra, rename.
  set (src := cwd ++ [D] ++ r).
  assert (Hsrc : beneath (cwd ++ [D]) src) by (exists r; unfold src; now rewrite <- app_assoc).
  assert (Hdiff : cwd ++ r <> src) by (intros C; apply Hout; rewrite C; exact Hsrc).
  assert (S1 : mkdir_all f (cwd ++ parent r) src = Some (File c)).
  { unfold mkdir_all. rewrite mkdir_from_frame; [exact Hf|].
    intros pre suf E Hpre C. simpl in C.
    assert (L : length pre <= length (cwd ++ parent r)) by (rewrite E, app_length; lia).
    assert (L2 : length src = length pre) by now rewrite C.
    unfold src in L2. rewrite !app_length in L2, L. unfold parent in L.
    assert (length (removelast r) < length r).
    { destruct r as [|x l]; [congruence|]. rewrite (app_removelast_last x (l:=x :: l)) at 2 by discriminate.
      rewrite app_length. simpl. lia. }
    simpl in L2. lia. }
  rewrite S1. rewrite parent_app by assumption. rewrite mkdir_all_is_dir.
  eexists. split; [reflexivity|]. split.
  - apply put_same.
  - rewrite put_other by (intro C; apply Hdiff; now rewrite C). apply del_same.
Qed.

(* non-vacuity: "../sib/out.txt" from /w with temp dir "t": the file lands in /sib/out.txt *)
Definition S (x : string) : seg := list_ascii_of_string x.
Example out_lands_example :
  let cwd := [S "w"] in let p := ORel 1 [S "sib"; S "out.txt"] in
  let f0 : store := put (fun _ => None) [S "sib"] Dir in
  enc p = [S "__parent__sib"; S "out.txt"] /\ target cwd p = [S "sib"; S "out.txt"] /\
  match task_out cwd (S "t") p 7 f0 with Some f' => f' [S "sib"; S "out.txt"] = Some (File 7) | None => False end.
Proof. vm_compute. repeat split; reflexivity. Qed.
