From Coq Require Import List Arith Lia Bool PeanoNat.
Import ListNotations.
Require Import NetA.

(* ---------- small list lemmas ---------- *)
Lemma existsb_eqb_In x l : existsb (Nat.eqb x) l = true <-> In x l.
Proof.
  rewrite existsb_exists. split.
  - intros [y [Hy E]]. apply Nat.eqb_eq in E. now subst.
  - intros H. exists x. split; auto. apply Nat.eqb_refl.
Qed.

Lemma existsb_eqb_false x l : existsb (Nat.eqb x) l = false <-> ~ In x l.
Proof.
  rewrite <- existsb_eqb_In. destruct (existsb (Nat.eqb x) l); intuition congruence.
Qed.

Lemma in_remove_iff x a l : In x (remove Nat.eq_dec a l) <-> In x l /\ x <> a.
Proof.
  split. - apply in_remove. - intros [H1 H2]. now apply in_in_remove.
Qed.

Lemma is_perm_in l1 : forall l2, is_perm l1 l2 = true -> NoDup l2 -> (forall x, In x l1 <-> In x l2) /\ NoDup l1.
Proof.
  induction l1 as [|a r IH]; intros l2 H ND; simpl in H.
  - destruct l2; [|discriminate]. split; [tauto|constructor].
  - apply andb_true_iff in H. destruct H as [Ha Hr]. apply existsb_eqb_In in Ha.
    assert (ND' : NoDup (remove Nat.eq_dec a l2)).
    { clear -ND. induction l2; simpl; [constructor|]. inversion ND; subst.
      destruct (Nat.eq_dec a a0); auto. constructor; auto. rewrite in_remove_iff. tauto. }
    destruct (IH _ Hr ND') as [Hin NDr]. split.
    + intros x. simpl. rewrite Hin, in_remove_iff. destruct (Nat.eq_dec x a); subst.
      * tauto.
      * split; intros H; [destruct H as [H|H]; [congruence|tauto] | tauto].
    + constructor; auto. rewrite Hin, in_remove_iff. tauto.
Qed.

Lemma is_perm_refl l : NoDup l -> is_perm l l = true.
Proof.
  induction l as [|a r IH]; intros ND; simpl; auto.
  inversion ND; subst. rewrite Nat.eqb_refl. simpl.
  destruct (Nat.eq_dec a a); [|congruence].
  rewrite notin_remove; auto.
Qed.

Lemma nodup_remove a l : NoDup l -> NoDup (remove Nat.eq_dec a l).
Proof.
  induction l as [|b l IH]; simpl; intros ND; [constructor|]. inversion ND; subst.
  destruct (Nat.eq_dec a b); auto. constructor; auto. rewrite in_remove_iff. tauto.
Qed.

(* two duplicate-free lists with the same elements pass the executable permutation test *)
Lemma is_perm_complete l1 : forall l2, NoDup l1 -> NoDup l2 -> (forall x, In x l1 <-> In x l2) -> is_perm l1 l2 = true.
Proof.
  induction l1 as [|a r IH]; intros l2 N1 N2 H; simpl.
  - destruct l2 as [|b l2]; auto. exfalso. apply (proj2 (H b)). left; reflexivity.
  - inversion N1; subst. apply andb_true_iff. split.
    + apply existsb_eqb_In. apply H. left; reflexivity.
    + apply IH; auto.
      * apply nodup_remove; auto.
      * intros x. rewrite in_remove_iff. split.
        -- intros Hx. split; [apply H; right; exact Hx|]. intros ->. contradiction.
        -- intros [Hx Hne]. apply H in Hx. destruct Hx as [->|Hx]; [congruence|exact Hx].
Qed.

(* file edges first, then parameter edges: the order in which createTasks reads the ports *)
Definition fsort (c : cfg) (l : list nat) : list nat := filter (fun e => negb (epar c e)) l ++ filter (epar c) l.

Lemma par_sorted_all_par c l : forallb (epar c) l = true -> par_sorted c l = true.
Proof.
  induction l as [|a r IH]; simpl; auto. intros H. apply andb_true_iff in H. destruct H as [Ha Hr].
  rewrite Ha, Hr. simpl. auto.
Qed.

Lemma par_sorted_app_files c l1 l2 :
  (forall x, In x l1 -> epar c x = false) -> par_sorted c l2 = true -> par_sorted c (l1 ++ l2) = true.
Proof.
  induction l1 as [|a r IH]; simpl; intros H1 H2; auto.
  rewrite (H1 a) by (left; reflexivity). simpl. apply IH; auto.
Qed.

Lemma par_sorted_fsort c l : par_sorted c (fsort c l) = true.
Proof.
  unfold fsort. apply par_sorted_app_files.
  - intros x Hx. apply filter_In in Hx. destruct Hx as [_ Hn]. now apply negb_true_iff in Hn.
  - apply par_sorted_all_par. apply forallb_forall. intros x Hx. apply filter_In in Hx. tauto.
Qed.

Lemma in_fsort c l x : In x (fsort c l) <-> In x l.
Proof.
  unfold fsort. rewrite in_app_iff, !filter_In. destruct (epar c x); simpl; intuition congruence.
Qed.

Lemma nodup_app_disj (l1 l2 : list nat) :
  NoDup l1 -> NoDup l2 -> (forall x, In x l1 -> ~ In x l2) -> NoDup (l1 ++ l2).
Proof.
  induction l1 as [|a m IH]; simpl; intros A B D; auto.
  inversion A; subst. constructor.
  - rewrite in_app_iff. intros [H|H]; [contradiction|]. apply (D a); [left; reflexivity|exact H].
  - apply IH; auto.
Qed.

Lemma nodup_fsort c l : NoDup l -> NoDup (fsort c l).
Proof.
  intros ND. unfold fsort. apply nodup_app_disj.
  - apply NoDup_filter; exact ND.
  - apply NoDup_filter; exact ND.
  - intros x H1 H2. apply filter_In in H1. apply filter_In in H2. destruct H1 as [_ H1]. destruct H2 as [_ H2].
    rewrite H2 in H1. discriminate.
Qed.

Lemma is_perm_fsort c l : NoDup l -> is_perm (fsort c l) l = true.
Proof.
  intros ND. apply is_perm_complete; auto. - apply nodup_fsort; auto. - intros x. apply in_fsort.
Qed.

Section Net.
Variable c : cfg.
Variable len : nat -> nat.

Definition E := length (edges c).

Record wf : Prop := {
  wf_topo : forall e, e < E -> esrc c e < edst c e /\ edst c e < nn c;
  wf_cap : 1 <= cap c;
  wf_src : forall v L, slen c v = Some L -> len v = L /\ ins c v = [];
  wf_proc : forall v, v < nn c -> slen c v = None -> ins c v <> [];
  wf_bal : forall e, e < E -> len (esrc c e) = len (edst c e)
}.
Hypothesis WF : wf.

Lemma in_ins e v : In e (ins c v) <-> e < E /\ edst c e = v.
Proof.
  unfold ins, eids, E. rewrite filter_In, in_seq, Nat.eqb_eq. lia.
Qed.
Lemma in_outs e v : In e (outs c v) <-> e < E /\ esrc c e = v.
Proof.
  unfold outs, eids, E. rewrite filter_In, in_seq, Nat.eqb_eq. lia.
Qed.
Lemma nodup_ins v : NoDup (ins c v).
Proof. unfold ins. apply NoDup_filter, seq_NoDup. Qed.
Lemma nodup_outs v : NoDup (outs c v).
Proof. unfold outs. apply NoDup_filter, seq_NoDup. Qed.

(* ---------- indicator functions ---------- *)
Definition hand (n : nst) := match ct n with CtHand => 1 | _ => 0 end.
Definition sending (n : nst) := match rn n with RSend _ => 1 | _ => 0 end.
Definition sx (n : nst) (e : nat) :=
  match rn n with RSend todo => if existsb (Nat.eqb e) todo then 0 else 1 | _ => 0 end.
Definition rx (n : nst) (e : nat) :=
  match ct n with CtRecv todo false => if existsb (Nat.eqb e) todo then 0 else 1 | _ => 0 end.

Record NodeInvN (v : nat) (n : nst) : Prop := {
  ni_count : rn n <> RFin -> eN n + length (fl n) + sending n = cN n;
  ni_fin : rn n = RFin -> ct n = CtDone /\ fl n = [] /\ eN n = cN n;
  ni_le : cN n + hand n <= len v;
  ni_done : ct n = CtDone -> cN n = len v;
  ni_saw : forall todo, ct n = CtRecv todo true -> cN n = len v;
  ni_rtodo : forall todo saw, ct n = CtRecv todo saw -> NoDup todo /\ (forall y, In y todo -> In y (ins c v)) /\ slen c v = None;
  ni_stodo : forall todo, rn n = RSend todo -> NoDup todo /\ (forall x, In x todo -> In x (outs c v))
}.

Record EdgeInvN (e : nat) (x : est) (nu nw : nst) : Prop := {
  ei_snt : snt x = eN nu + sx nu e;
  ei_rcv : rcv x = cN nw + hand nw + rx nw e;
  ei_q : rcv x <= snt x /\ snt x - rcv x <= cap c;
  ei_clo : clo x = true <-> rn nu = RFin
}.

Definition NodeInv (s : st) (v : nat) := NodeInvN v (ns s v).
Definition EdgeInv (s : st) (e : nat) := EdgeInvN e (es s e) (ns s (esrc c e)) (ns s (edst c e)).

Definition Inv (s : st) : Prop :=
  (forall v, v < nn c -> NodeInv s v) /\ (forall e, e < E -> EdgeInv s e).

Lemma snt_le_len s e : Inv s -> e < E -> snt (es s e) <= len (esrc c e).
Proof.
  intros [HN HE] He. destruct (wf_topo WF e He) as [Hlt Hd].
  assert (Hu : esrc c e < nn c) by lia.
  destruct (HN _ Hu) as [n1 n2 n3 n4 n5 n6 n7]. destruct (HE _ He) as [e1 e2 e3 e4].
  rewrite e1. unfold sx, sending, hand in *.
  destruct (rn (ns s (esrc c e))) eqn:R; simpl in *.
  - assert (H : RSel <> RFin) by congruence. specialize (n1 H). lia.
  - assert (H : RSend todo <> RFin) by congruence. specialize (n1 H). destruct (existsb (Nat.eqb e) todo); lia.
  - destruct (n2 eq_refl) as [_ [_ Heq]]. lia.
Qed.

Lemma init_inv : Inv (init c).
Proof.
  split.
  - intros v Hv. constructor; unfold sending, hand; simpl; intros; try discriminate; try lia.
  - intros e He. constructor; simpl; unfold sx, rx, hand; simpl; try lia. split; congruence.
Qed.

End Net.
