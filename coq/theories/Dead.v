From Coq Require Import List Arith Lia Bool PeanoNat Wf_nat.
Import ListNotations.
Require Import NetA Inv.

Section Dead.
Variable c : cfg.
Variable len : nat -> nat.
Hypothesis WF : wf c len.

Definition key (s : st) (v : nat) := eN (ns s v) * S (nn c) + v.

Lemma key_lt s w v : w < nn c -> v < nn c ->
  (eN (ns s w) < eN (ns s v) \/ (eN (ns s w) = eN (ns s v) /\ w < v)) -> key s w < key s v.
Proof. unfold key. intros Hw Hv [H|[H1 H2]]; nia. Qed.

Lemma all_true_or (l : list bool) : (exists i, nth_error l i = Some false) \/ (forall b, In b l -> b = true).
Proof.
  induction l as [|b r IH].
  - right. intros b [].
  - destruct b.
    + destruct IH as [[i Hi]|H]; [left; exists (S i); exact Hi|right].
      intros b [Hb|Hb]; auto.
    + left. exists 0. reflexivity.
Qed.

Theorem no_deadlock_aux s : Inv c len s ->
  forall n v, key s v = n -> v < nn c -> rn (ns s v) <> RFin ->
  exists a, node_of a < nn c /\ step c s a <> None.
Proof.
  intros HI n. induction n as [n IH] using lt_wf_ind. intros v Hk Hv Hun.
  destruct HI as [HN HE].
  pose proof (HN v Hv) as NI. destruct NI as [n1 n2 n3 n4 n5 n6 n7].
  remember (ns s v) as nv eqn:Env.
  (* 1. some in-flight task still executing *)
  destruct (all_true_or (fl nv)) as [[i Hi]|Hall].
  { exists (AExit v i). split; [exact Hv|]. simpl. rewrite <- Env, Hi. discriminate. }
  destruct (rn nv) eqn:Rn.
  - (* RSel *)
    destruct (fl nv) as [|b rest] eqn:Fl.
    + (* nothing in flight *)
      destruct (ct nv) eqn:Ct.
      * (* CtIdle *)
        exists (ABegin v (fsort c (ins c v))). split; [exact Hv|]. simpl. rewrite <- Env, Ct.
        destruct (slen c v); [destruct (Nat.ltb _ _); discriminate|].
        rewrite is_perm_fsort by apply nodup_ins. rewrite par_sorted_fsort. discriminate.
      * (* CtRecv *)
        destruct todo as [|y todo].
        { exists (AEndRound v). split; [exact Hv|]. simpl. rewrite <- Env, Ct. destruct saw; simpl; discriminate. }
        destruct (Nat.ltb (rcv (es s y)) (snt (es s y))) eqn:Hq.
        { exists (ARecv v). split; [exact Hv|]. simpl. rewrite <- Env, Ct, Hq. discriminate. }
        destruct (clo (es s y)) eqn:Hc.
        { exists (ARecv v). split; [exact Hv|]. simpl. rewrite <- Env, Ct, Hq, Hc. discriminate. }
        (* blocked receiving on empty open edge y : blame upstream *)
        apply Nat.ltb_ge in Hq.
        destruct (n6 _ _ eq_refl) as [ND [Hsub Hsl]].
        assert (Hy : In y (ins c v)) by (apply Hsub; left; reflexivity).
        apply in_ins in Hy. destruct Hy as [HyE Hyd].
        destruct (wf_topo _ _ WF y HyE) as [Hlt Hdn].
        set (u := esrc c y) in *.
        assert (Hu : u < nn c) by lia.
        pose proof (HE y HyE) as EI. destruct EI as [e1 e2 e3 e4].
        assert (Hunu : rn (ns s u) <> RFin).
        { intros F. apply e4 in F. congruence. }
        (* rcv y = cN v, snt y >= eN u, eN v = cN v *)
        assert (Hrx : rx (ns s (edst c y)) y = 0).
        { rewrite Hyd, <- Env. unfold rx. rewrite Ct. destruct saw; auto. simpl. rewrite Nat.eqb_refl. reflexivity. }
        assert (Hh : hand (ns s (edst c y)) = 0).
        { rewrite Hyd, <- Env. unfold hand. rewrite Ct. reflexivity. }
        rewrite Hrx, Hh, Hyd, <- Env in e2.
        assert (Hcnt : eN nv = cN nv).
        { assert (RSel <> RFin) by congruence. specialize (n1 H). unfold sending in n1. rewrite Rn in n1. simpl in n1. lia. }
        assert (Hle : eN (ns s u) <= eN (ns s v)).
        { rewrite <- Env. fold u in e1. lia. }
        assert (Hkey : key s u < key s v).
        { apply key_lt; auto. fold u in Hlt. rewrite Hyd in Hlt. lia. }
        eapply (IH (key s u)); [lia|reflexivity|exact Hu|exact Hunu].
      * (* CtHand *)
        exists (AHand v). split; [exact Hv|]. simpl. rewrite <- Env, Ct, Rn. discriminate.
      * (* CtDone *)
        exists (AFin v). split; [exact Hv|]. simpl. rewrite <- Env, Rn, Ct, Fl. discriminate.
    + (* head of queue *)
      assert (b = true) by (apply Hall; left; reflexivity). subst b.
      exists (APop v (outs c v)). split; [exact Hv|]. simpl. rewrite <- Env, Rn, Fl.
      rewrite is_perm_refl by apply nodup_outs. discriminate.
  - (* RSend *)
    destruct todo as [|x todo].
    { exists (AEndSend v). split; [exact Hv|]. simpl. rewrite <- Env, Rn. discriminate. }
    destruct (Nat.ltb (snt (es s x) - rcv (es s x)) (cap c)) eqn:Hq.
    { exists (ASend v). split; [exact Hv|]. simpl. rewrite <- Env, Rn, Hq. discriminate. }
    (* blocked on full edge x : blame downstream *)
    apply Nat.ltb_ge in Hq.
    destruct (n7 _ eq_refl) as [ND Hsub].
    assert (Hx : In x (outs c v)) by (apply Hsub; left; reflexivity).
    apply in_outs in Hx. destruct Hx as [HxE Hxs].
    destruct (wf_topo _ _ WF x HxE) as [Hlt Hdn].
    set (w := edst c x) in *.
    pose proof (HE x HxE) as EI. destruct EI as [e1 e2 e3 e4].
    pose proof (wf_cap _ _ WF) as Hcap.
    assert (Hsx : sx (ns s (esrc c x)) x = 0).
    { rewrite Hxs, <- Env. unfold sx. rewrite Rn. simpl. rewrite Nat.eqb_refl. reflexivity. }
    rewrite Hsx, Hxs, <- Env in e1.
    pose proof (HN w Hdn) as NW. destruct NW as [w1 w2 w3 w4 w5 w6 w7].
    fold w in e2.
    assert (Hunw : rn (ns s w) <> RFin).
    { intros F. destruct (w2 F) as [Hd [Hf He]]. specialize (w4 Hd).
      pose proof (snt_le_len c len WF s x (conj HN HE) HxE) as Hs.
      rewrite (wf_bal _ _ WF x HxE) in Hs. fold w in Hs.
      unfold hand in e2. rewrite Hd in e2. unfold rx in e2. rewrite Hd in e2. lia. }
    assert (Hew : eN (ns s w) < eN (ns s v)).
    { assert (eN (ns s w) <= cN (ns s w)).
      { specialize (w1 Hunw). lia. }
      rewrite <- Env. lia. }
    assert (Hkey : key s w < key s v) by (apply key_lt; auto).
    eapply (IH (key s w)); [lia|reflexivity|exact Hdn|exact Hunw].
  - congruence.
Qed.

Theorem no_deadlock s : Inv c len s ->
  (exists v, v < nn c /\ rn (ns s v) <> RFin) ->
  exists a, node_of a < nn c /\ step c s a <> None.
Proof.
  intros HI [v [Hv Hun]]. eapply no_deadlock_aux; eauto.
Qed.

End Dead.
Print Assumptions no_deadlock.
