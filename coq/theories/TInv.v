From Coq Require Import List Arith Lia Bool PeanoNat.
Import ListNotations.
Require Import Result TaskFS.

Fixpoint lookup (x : nat) (os : list nat) (cs : list content) : option content :=
  match os, cs with
  | o :: os', c :: cs' => if Nat.eqb x o then Some c else lookup x os' cs'
  | _, _ => None
  end.

Lemma upd_same A (f : nat -> A) i a : upd f i a i = a.
Proof. unfold upd. now rewrite Nat.eqb_refl. Qed.
Lemma upd_other A (f : nat -> A) i a j : j <> i -> upd f i a j = f j.
Proof. unfold upd. intros H. destruct (Nat.eqb_spec j i); congruence. Qed.

Lemma existsb_eqb_In x l : existsb (Nat.eqb x) l = true <-> In x l.
Proof.
  rewrite existsb_exists. split.
  - intros [y [Hy E]]. apply Nat.eqb_eq in E. now subst.
  - intros H. exists x. split; auto. apply Nat.eqb_refl.
Qed.

Lemma shares_true l1 l2 : shares l1 l2 = true <-> exists x, In x l1 /\ In x l2.
Proof.
  unfold shares. rewrite existsb_exists. split.
  - intros [x [H1 H2]]. apply existsb_eqb_In in H2. eauto.
  - intros [x [H1 H2]]. exists x. split; auto. apply existsb_eqb_In; auto.
Qed.

Section Inv.
Variable c : cfg.
Variable f0 : fs.
Variable left0 : nat -> bool.

Record wfc : Prop := {
  w_nodup : forall t, t < nt c -> NoDup (tout (tk c t));
  w_disj : forall t t' x, t < nt c -> t' < nt c -> t <> t' -> In x (tout (tk c t)) -> ~ In x (tout (tk c t'));
  w_topo : forall t d x, t < nt c -> d < nt c -> t <= d -> In x (tin (tk c t)) -> ~ In x (tout (tk c d));
  w_len : forall t xs cs, t < nt c -> sem (tk c t) xs = Some cs -> length cs = length (tout (tk c t))
}.
Hypothesis WF : wfc.

Definition past_chk (p : pc) := match p with MkTemp | Cmd | Ensure | Ren _ | RmTemp | DoneRan => true | _ => false end.
Definition past_cmd (p : pc) := match p with Ensure | Ren _ | RmTemp | DoneRan => true | _ => false end.

Definition committed (p : pc) (x : nat) : Prop :=
  match p with
  | Ren todo => ~ In x todo
  | RmTemp | DoneRan => True
  | _ => False
  end.

Definition committed_dec p x : {committed p x} + {~ committed p x}.
Proof.
  destruct p; simpl; try (right; tauto); try (left; exact I).
  destruct (in_dec Nat.eq_dec x todo); [right|left]; tauto.
Defined.

Record TInv (s : st) (t : nat) : Prop := {
  t_fin : forall x, In x (tout (tk c t)) ->
          (committed (pcs s t) x -> fin s x = lookup x (tout (tk c t)) (val s t) /\ fin s x <> None) /\
          (~ committed (pcs s t) x -> fin s x = f0 x);
  t_abs : past_chk (pcs s t) = true -> forall x, In x (tout (tk c t)) -> f0 x = None;
  t_sem : past_cmd (pcs s t) = true -> sem (tk c t) (map (fin s) (tin (tk c t))) = Some (val s t);
  t_ens : pcs s t = Ensure -> forall x v, In x (tout (tk c t)) -> tmp s t x = Some v ->
          lookup x (tout (tk c t)) (val s t) = Some v;
  t_ren : forall todo, pcs s t = Ren todo ->
          NoDup todo /\ forall x, In x todo -> In x (tout (tk c t)) /\
             exists v, tmp s t x = Some v /\ lookup x (tout (tk c t)) (val s t) = Some v;
  t_deps : pcs s t <> Wait -> forall d, d < t -> shares (tout (tk c d)) (tin (tk c t)) = true -> is_done (pcs s d) = true;
  t_skip : pcs s t = DoneSkip -> any_exists f0 (tout (tk c t)) = true
}.

Definition Inv (s : st) : Prop :=
  (forall t, t < nt c -> TInv s t) /\
  (forall x, (forall t, t < nt c -> ~ In x (tout (tk c t))) -> fin s x = f0 x).

Lemma init_inv : Inv (init c f0 left0).
Proof.
  split.
  - intros t Ht. constructor; simpl; intros; try discriminate; try tauto; try congruence.
  - intros; reflexivity.
Qed.

(* C01: whatever the schedule and wherever the run is cut, a declared output path
   either still has its initial content or holds exactly what a successfully
   finished command of its task produced *)
Theorem C01_atomic s : Inv s -> forall t x, t < nt c -> In x (tout (tk c t)) ->
  fin s x = f0 x \/
  (past_cmd (pcs s t) = true /\ sem (tk c t) (map (fin s) (tin (tk c t))) = Some (val s t) /\
   fin s x = lookup x (tout (tk c t)) (val s t) /\ fin s x <> None).
Proof.
  intros [HT _] t x Ht Hx. destruct (HT t Ht) as [a1 a2 a3 a4 a5 a6 a7].
  destruct (a1 x Hx) as [Hc Hn].
  destruct (committed_dec (pcs s t) x) as [C|C]; [right|left; auto].
  assert (P : past_cmd (pcs s t) = true) by (destruct (pcs s t); simpl in *; tauto).
  destruct (Hc C). auto.
Qed.

End Inv.
