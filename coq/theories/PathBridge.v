(* Bridge between the string functions of the code (Format.temp_path = FileIP.TempPath, compared with the real function on
   every run) and the segment-level statements of PathFS: for every canonical output path whose segments do not end in
   ".." (the complement is finding D15), splitting the temp path at "/" gives exactly PathFS.enc. *)
From Coq Require Import List Ascii String Arith Lia Bool.
Import ListNotations.
From SP Require Import Str PathLex Encode Format PathFS.

Local Arguments Ascii.eqb : simpl never.

Definition render (p : opath) : str :=
  match p with
  | ORel k segs => rep k up ++ join_sl segs
  | OAbs segs => sl :: join_sl segs
  end.

(* no "/" inside, and the segment does not end in ".." *)
Definition noslash (g : seg) : Prop := existsb (Ascii.eqb sl) g = false.
Definition not_dd_end (g : seg) : Prop := forall pre, g <> pre ++ dd.

Lemma dotc_dot : dotc = dot.  Proof. reflexivity. Qed.
Lemma slc_sl : slc = sl.  Proof. reflexivity. Qed.

Lemma enc_up s : Encode.enc (up ++ s) = PH ++ Encode.enc s.
Proof. change (up ++ s) with (dotc :: dotc :: slc :: s). rewrite enc_3. now rewrite !Ascii.eqb_refl. Qed.

Lemma enc_rep_up k s : Encode.enc (rep k up ++ s) = rep k PH ++ Encode.enc s.
Proof. induction k as [|k IH]; [reflexivity|]. cbn [rep]. rewrite <- app_assoc, enc_up, IH. now rewrite <- app_assoc. Qed.

Lemma noslash_cons c g : noslash (c :: g) -> Ascii.eqb sl c = false /\ noslash g.
Proof. unfold noslash. simpl. intros H. apply orb_false_iff in H. exact H. Qed.

Lemma not_dd_end_tail c g : not_dd_end (c :: g) -> not_dd_end g.
Proof. intros H pre E. apply (H (c :: pre)). simpl. now rewrite E. Qed.

(* the encoder copies a segment that has no slash and does not end in "..", together with the slash after it *)
Lemma enc_seg_slash g : forall t, noslash g -> not_dd_end g -> Encode.enc (g ++ sl :: t) = g ++ sl :: Encode.enc t.
Proof.
  induction g as [|c g IH]; intros t Hn Hd.
  - (* "/" followed by t: a slash is never the start of "../" *)
    simpl app. destruct t as [|c2 [|c3 t']]; reflexivity.
  - destruct (noslash_cons c g Hn) as [Hc Hg]. pose proof (not_dd_end_tail c g Hd) as Hd'.
    simpl app.
    destruct (g ++ sl :: t) as [|c2 [|c3 r']] eqn:Eg.
    + destruct g; discriminate.
    + (* g ++ "/" :: t has one character: g = [] and t = [] *)
      destruct g as [|x g']; [|destruct g'; discriminate].
      simpl in Eg. injection Eg as Ec Et. subst. reflexivity.
    + rewrite enc_3.
      destruct (Ascii.eqb c dotc && Ascii.eqb c2 dotc && Ascii.eqb c3 slc) eqn:M.
      * exfalso. apply andb_true_iff in M. destruct M as [M M3]. apply andb_true_iff in M. destruct M as [M1 M2].
        apply Ascii.eqb_eq in M1, M2, M3. subst c c2 c3.
        (* c2 = '.', c3 = '/' : either g = ["."] ++ ... with the slash being the separator => g = ["."] and c :: g = ".." *)
        destruct g as [|x g']; [simpl in Eg; injection Eg as E _; discriminate|].
        simpl in Eg. injection Eg as -> Eg.
        destruct g' as [|y g'']; simpl in Eg.
        -- apply (Hd []). reflexivity.
        -- injection Eg as -> _. destruct (noslash_cons _ _ Hg) as [_ Hg2]. destruct (noslash_cons _ _ Hg2) as [Hy _].
           rewrite slc_sl in Hy. rewrite Ascii.eqb_refl in Hy. discriminate.
      * rewrite <- Eg. rewrite IH by assumption. reflexivity.
Qed.

Lemma enc_seg_last g : noslash g -> Encode.enc g = g.
Proof.
  induction g as [|c g IH]; intros Hn; [reflexivity|].
  destruct (noslash_cons c g Hn) as [Hc Hg].
  destruct g as [|c2 [|c3 r']]; try reflexivity.
  rewrite enc_3.
  destruct (Ascii.eqb c dotc && Ascii.eqb c2 dotc && Ascii.eqb c3 slc) eqn:M.
  - exfalso. apply andb_true_iff in M. destruct M as [_ M3]. apply Ascii.eqb_eq in M3. subst c3.
    destruct (noslash_cons _ _ Hg) as [_ Hg2]. destruct (noslash_cons _ _ Hg2) as [H3 _].
    rewrite slc_sl, Ascii.eqb_refl in H3. discriminate.
  - rewrite IH by assumption. reflexivity.
Qed.

Lemma enc_join segs : Forall noslash segs -> Forall not_dd_end segs -> Encode.enc (join_sl segs) = join_sl segs.
Proof.
  induction segs as [|g r IH]; intros Hn Hd; [reflexivity|].
  inversion Hn; subst. inversion Hd; subst.
  destruct r as [|g2 r'].
  - simpl. apply enc_seg_last. assumption.
  - change (join_sl (g :: g2 :: r')) with (g ++ sl :: join_sl (g2 :: r')).
    rewrite enc_seg_slash by assumption. rewrite IH by assumption. reflexivity.
Qed.

(* splitting at "/" *)
Lemma split_noslash x : forall cur, noslash x -> split_sl x cur = [rev cur ++ x].
Proof.
  induction x as [|c x IH]; intros cur Hn; cbn [split_sl].
  - now rewrite app_nil_r.
  - destruct (noslash_cons c x Hn) as [Hc Hx]. rewrite Ascii.eqb_sym in Hc. rewrite Hc. rewrite IH by assumption.
    cbn [rev]. now rewrite <- app_assoc.
Qed.

Lemma split_seg_slash x : forall cur t, noslash x -> split_sl (x ++ sl :: t) cur = (rev cur ++ x) :: split_sl t [].
Proof.
  induction x as [|c x IH]; intros cur t Hn; cbn [app split_sl].
  - rewrite Ascii.eqb_refl. now rewrite app_nil_r.
  - destruct (noslash_cons c x Hn) as [Hc Hx]. rewrite Ascii.eqb_sym in Hc. rewrite Hc. rewrite IH by assumption.
    cbn [rev]. now rewrite <- app_assoc.
Qed.

Lemma split_join segs : segs <> [] -> Forall noslash segs -> forall x, noslash x ->
  split_sl (x ++ join_sl segs) [] = match segs with g :: r => (x ++ g) :: r | [] => [x] end.
Proof.
  intros Hne Hn. induction segs as [|g r IH]; [congruence|]. intros x Hx. inversion Hn; subst.
  destruct r as [|g2 r'].
  - simpl. rewrite split_noslash.
    + reflexivity.
    + unfold noslash in *. rewrite existsb_app, Hx, H1. reflexivity.
  - change (join_sl (g :: g2 :: r')) with (g ++ sl :: join_sl (g2 :: r')).
    rewrite app_assoc. rewrite split_seg_slash.
    + simpl rev. simpl app at 1. f_equal.
      specialize (IH ltac:(discriminate) H2 [] eq_refl). simpl in IH. exact IH.
    + unfold noslash in *. rewrite existsb_app, Hx, H1. reflexivity.
Qed.

Lemma noslash_rep_PH k : noslash (rep k PH).
Proof. unfold noslash. induction k; simpl; auto. Qed.

Lemma proper_noslash g : proper g -> noslash g.
Proof.
  unfold proper, properb, noslash. intros H. repeat (apply andb_true_iff in H; destruct H as [H ?]).
  now apply negb_true_iff.
Qed.

Definition nice (p : opath) : Prop :=
  canonical p /\ match p with ORel _ segs | OAbs segs => Forall not_dd_end segs end.

(* the temp path of the code, split at "/", is the segment-level encoding *)
Theorem temp_path_is_enc p : nice p -> split_sl (temp_path (render p)) [] = PathFS.enc p.
Proof.
  intros [Hc Hd]. unfold temp_path. change (s2l "../") with up. change (s2l "__parent__") with PH.
  rewrite replace_all_up_enc.
  destruct p as [k segs|segs]; simpl in Hc, Hd; destruct Hc as [Hne Hp].
  - assert (Hn : Forall noslash segs) by (eapply Forall_impl; [|exact Hp]; apply proper_noslash).
    simpl render. rewrite enc_rep_up, enc_join by assumption.
    (* the first character is not a slash *)
    assert (Hhead : match rep k PH ++ join_sl segs with c :: _ => Ascii.eqb c sl = false | [] => True end).
    { destruct k; simpl.
      - destruct segs as [|g r]; [congruence|]. inversion Hn; subst. inversion Hp; subst.
        destruct g as [|c g']; [exfalso; revert H3; unfold proper, properb; simpl; discriminate|].
        destruct r; simpl; destruct (noslash_cons c g' H1) as [Hc _]; now rewrite Ascii.eqb_sym.
      - reflexivity. }
    destruct (rep k PH ++ join_sl segs) as [|c q] eqn:E.
    + exfalso. destruct k; simpl in E.
      * destruct segs as [|g r]; [congruence|]. inversion Hp; subst. destruct g; [revert H1; unfold proper, properb; simpl; discriminate|].
        destruct r; discriminate.
      * discriminate.
    + rewrite Hhead. rewrite <- E. rewrite split_join by (auto using noslash_rep_PH).
      destruct k; simpl.
      * destruct segs; [congruence|reflexivity].
      * destruct segs; [congruence|]. reflexivity.
  - assert (Hn : Forall noslash segs) by (eapply Forall_impl; [|exact Hp]; apply proper_noslash).
    simpl render.
    assert (E : Encode.enc (sl :: join_sl segs) = sl :: join_sl segs).
    { change (sl :: join_sl segs) with ([] ++ sl :: join_sl segs). rewrite enc_seg_slash.
      - rewrite enc_join by assumption. reflexivity.
      - reflexivity.
      - intros pre E. destruct pre as [|a [|b pre']]; discriminate. }
    rewrite E. rewrite Ascii.eqb_refl.
    change (s2l "__fsroot__" ++ sl :: join_sl segs) with (FSR ++ sl :: join_sl segs).
    rewrite split_seg_slash by reflexivity. simpl. f_equal.
    pose proof (split_join segs Hne Hn [] eq_refl) as S. simpl in S. rewrite S. destruct segs; [congruence|reflexivity].
Qed.
