(* C04 -- Every input set is processed exactly once; every item reaches every consumer.
   Model: NetA (createTasks / Run / task threads per process, bounded FIFO edges) with the history variables of Ghost.
   Quantifiers: every merge-free balanced acyclic configuration `c` (any number of nodes, edges, stream lengths,
   capacity >= 1), every schedule `sched` (= every interleaving), every reachable state. *)
From Coq Require Import List Arith Lia Bool PeanoNat String.
Import ListNotations.
Notation length := List.length.
From SP Require Import Skel Gen Expected ExpectedCones NetA Inv Pres Dead Top Ghost GhostPres NetTop.
From SP Require TagShare.
From SP Require Port.
From SP Require WfModel AuditModel.
From SP Require Result TaskFS TInv Glue Cor TaskTop.

(* T1: the code shape the transition system was written against *)
Theorem C04_code_conforms :
  skel_eqb skel_Process_Run exp_Process_Run
  && skel_eqb skel_Process_createTasks exp_Process_createTasks
  && skel_eqb skel_BaseProcess_receiveOnInPorts exp_BaseProcess_receiveOnInPorts
  && skel_eqb skel_BaseProcess_receiveOnInParamPorts exp_BaseProcess_receiveOnInParamPorts
  && skel_eqb skel_taskQueue_NextTaskDone exp_taskQueue_NextTaskDone
  && skel_eqb skel_InPort_Send exp_InPort_Send
  && skel_eqb skel_InPort_CloseConnection exp_InPort_CloseConnection
  && skel_eqb skel_InParamPort_Send exp_InParamPort_Send
  && skel_eqb skel_InParamPort_CloseConnection exp_InParamPort_CloseConnection
  && skel_eqb skel_OutPort_Send exp_OutPort_Send
  && skel_eqb skel_OutPort_Close exp_OutPort_Close
  && skel_eqb skel_OutParamPort_Send exp_OutParamPort_Send
  && skel_eqb skel_OutParamPort_Close exp_OutParamPort_Close
  && skel_eqb skel_BaseProcess_CloseOutPorts exp_BaseProcess_CloseOutPorts
  && skel_eqb skel_InParamPort_FromStr exp_InParamPort_FromStr
  && skel_eqb skel_Sink_Run exp_Sink_Run = true.
Proof. vm_compute. reflexivity. Qed.

(* the k-th task a process created is made of the k-th item of every in-edge history (for a source: its k-th item):
   tasks are exactly the zip of the incoming streams -- none lost, none duplicated, none mispaired *)
Theorem C04_tasks_are_zip : forall (c : cfg) (len : nat -> nat) (gc : gcfg),
  wf c len -> (forall v L, slen c v = Some L -> length (sitems gc v) = L) ->
  forall sched s g, sched_ok c sched -> grun c gc (init c) ginit sched = Some (s, g) ->
  forall v k, v < nn c -> k < cN (ns s v) ->
  nth k (crt g v) [] = tuple_of c gc g v k /\ length (crt g v) = cN (ns s v).
Proof.
  intros c len gc WF SL sched s g Hok Hrun v k Hv Hk.
  destruct (reachable_inv c len gc WF sched s g Hok Hrun) as [_ [_ G]].
  split; [exact (Ghost.C04_tasks_are_zip c gc s g G v k Hv Hk) | exact (g_crtn c gc s g G v Hv)].
Qed.

(* everything sent on an edge so far is, in order, the outputs of the first tasks its source created: each exactly once *)
Theorem C04_emitted_exactly_once : forall (c : cfg) (len : nat -> nat) (gc : gcfg),
  wf c len -> (forall v L, slen c v = Some L -> length (sitems gc v) = L) ->
  forall sched s g, sched_ok c sched -> grun c gc (init c) ginit sched = Some (s, g) ->
  forall e, e < E c ->
  hist g e = map (outf gc (esrc c e) e) (firstn (snt (es s e)) (crt g (esrc c e))) /\ length (hist g e) = snt (es s e).
Proof.
  intros c len gc WF SL sched s g Hok Hrun e He.
  destruct (reachable_inv c len gc WF sched s g Hok Hrun) as [_ [_ G]].
  split; [exact (Ghost.C08_order c gc s g G e He) | exact (g_len c gc s g G e He)].
Qed.

(* when every process has finished, every process has created and emitted a task for every input set,
   and on every edge everything that was sent has been received *)
Theorem C04_complete : forall (c : cfg) (len : nat -> nat) (gc : gcfg),
  wf c len -> (forall v L, slen c v = Some L -> length (sitems gc v) = L) ->
  forall sched s g, sched_ok c sched -> grun c gc (init c) ginit sched = Some (s, g) -> final c s ->
  (forall v, v < nn c -> cN (ns s v) = len v /\ eN (ns s v) = len v /\ fl (ns s v) = []) /\
  (forall e, e < E c -> snt (es s e) = len (esrc c e) /\ rcv (es s e) = snt (es s e)).
Proof.
  intros c len gc WF SL sched s g Hok Hrun HF.
  destruct (reachable_inv c len gc WF sched s g Hok Hrun) as [I _].
  exact (final_complete c len WF s I HF).
Qed.

(* the tasks of a completed run do not depend on the schedule *)
Theorem C04_deterministic : forall (c : cfg) (len : nat -> nat) (gc : gcfg),
  wf c len -> (forall v L, slen c v = Some L -> length (sitems gc v) = L) ->
  forall sched1 s1 g1 sched2 s2 g2,
  sched_ok c sched1 -> grun c gc (init c) ginit sched1 = Some (s1, g1) -> final c s1 ->
  sched_ok c sched2 -> grun c gc (init c) ginit sched2 = Some (s2, g2) -> final c s2 ->
  forall v, v < nn c -> crt g1 v = crt g2 v.
Proof.
  intros c len gc WF SL sched1 s1 g1 sched2 s2 g2 O1 R1 F1 O2 R2 F2.
  exact (final_tasks_deterministic c len gc WF s1 g1 s2 g2
           (reachable_inv c len gc WF sched1 s1 g1 O1 R1) F1 (reachable_inv c len gc WF sched2 s2 g2 O2 R2) F2).
Qed.

(* the zip equation: in a completed run the k-th task of a process consists of the outputs of the k-th tasks of its
   producers (for a source: its k-th item) ... *)
Theorem C04_zip_equation : forall (c : cfg) (len : nat -> nat) (gc : gcfg),
  wf c len -> (forall v L, slen c v = Some L -> length (sitems gc v) = L) ->
  forall sched s g, sched_ok c sched -> grun c gc (init c) ginit sched = Some (s, g) -> final c s ->
  forall v k, v < nn c -> k < len v ->
  nth k (crt g v) [] =
  match slen c v with
  | Some _ => [nth k (sitems gc v) 0]
  | None => map (fun y => nth k (map (outf gc (esrc c y) y) (crt g (esrc c y))) 0) (ins c v)
  end.
Proof.
  intros c len gc WF SL sched s g Hok Hrun HF v k Hv Hk.
  exact (final_zip_equation c len gc WF s g v k (reachable_inv c len gc WF sched s g Hok Hrun) HF Hv Hk).
Qed.

(* ... which is the recursion the sequential reference evaluator used by the correspondence check computes: its round k
   takes the k-th item of every in-column *)
Theorem C04_reference_evaluator_zips : forall (A : Type) (d : A) (n : nat) (cols : list (list A)) (k : nat), k < n ->
  nth k (WfModel.transpose_n d n cols) [] = map (fun col => nth k col d) cols.
Proof. exact @AuditModel.transpose_nth. Qed.

(* fan-in of several upstreams into one port (Port.v: InPort.Send from every remote, the shared bounded channel,
   CloseConnection, the receiver): for every number of upstreams, all stream lengths, every buffer size >= 1 and every
   schedule -- what the receiver holds from each upstream is, in that upstream's order, a prefix of what it sends, nothing
   else is received, at most cap items wait ... *)
Theorem C04_port_merge : forall (c : Port.cfg), 1 <= Port.cap c -> 1 <= Port.ns c ->
  forall l s, Port.run c (Port.init c) l = Some s ->
  (forall r, r < Port.ns c -> Port.from r (Port.hist s) = firstn (Port.rcv s r) (Port.plan c r)) /\
  (forall r, Port.ns c <= r -> Port.from r (Port.hist s) = []) /\ (Port.queued c s <= Port.cap c).
Proof. exact Port.merge_is_orderly. Qed.

(* ... the port closes exactly when its last upstream closed, and an upstream closes only after its last send ... *)
Theorem C04_port_closes_with_last : forall (c : Port.cfg), 1 <= Port.cap c -> 1 <= Port.ns c ->
  forall l s, Port.run c (Port.init c) l = Some s ->
  (Port.closed s = true <-> forall r, r < Port.ns c -> Port.opn s r = false) /\
  (forall r, r < Port.ns c -> Port.opn s r = false -> Port.sent s r = List.length (Port.plan c r)).
Proof. exact Port.closes_with_last. Qed.

(* ... once the receiver has seen the port closed it holds from every upstream exactly what that upstream sent: every item
   exactly once -- none lost, none duplicated ... *)
Theorem C04_port_complete : forall (c : Port.cfg), 1 <= Port.cap c -> 1 <= Port.ns c ->
  forall l s, Port.run c (Port.init c) l = Some s -> Port.seen s = true ->
  forall r, r < Port.ns c -> Port.from r (Port.hist s) = Port.plan c r.
Proof. exact Port.complete_when_seen. Qed.

(* ... and until then some step is always possible (streams longer than the buffer do not block the merge) *)
Theorem C04_port_progress : forall (c : Port.cfg), 1 <= Port.cap c -> 1 <= Port.ns c ->
  forall l s, Port.run c (Port.init c) l = Some s -> Port.seen s = false -> exists a, Port.step c s a <> None.
Proof. exact Port.port_progress. Qed.

(* non-vacuity: the diamond 0 -> {1,2} -> 3 with a 2-item source and capacity 1 is a well-formed configuration *)
Theorem C04_nonvacuous : wf dia (fun _ => 2).
Proof. exact dia_wf. Qed.

(* "Consequently the set of files a workflow produces and their contents are a function of the workflow graph and its
   inputs alone, not of timing": the tasks are (C04_deterministic); and for the files, in the task / file-store machine
   (TaskFS: every task DAG, every initial store, with or without left-over temp dirs): two runs, under any two schedules,
   that get all their tasks done hold the same content at every declared output -- both hold the sequential reference's *)
Theorem C04_files_deterministic : forall (c : TaskFS.cfg) (f0 : Result.fs) (left1 left2 : nat -> bool), TInv.wfc c ->
  forall fR, Glue.pre c f0 (TaskFS.nt c) = Some fR ->
  forall s1 s2, Cor.reachable c f0 left1 s1 -> Cor.reachable c f0 left2 s2 ->
  (forall t, t < TaskFS.nt c -> TaskFS.is_done (TaskFS.pcs s1 t) = true) ->
  (forall t, t < TaskFS.nt c -> TaskFS.is_done (TaskFS.pcs s2 t) = true) ->
  forall t x, t < TaskFS.nt c -> In x (Result.tout (TaskFS.tk c t)) -> TaskFS.fin s1 x = TaskFS.fin s2 x.
Proof.
  intros c f0 l1 l2 W fR P s1 s2 R1 R2 D1 D2 t x Ht Hx.
  rewrite (TaskTop.complete_is_result c f0 l1 W fR P s1 R1 D1 t x Ht Hx).
  rewrite (TaskTop.complete_is_result c f0 l2 W fR P s2 R2 D2 t x Ht Hx). reflexivity.
Qed.

(* T1, call cones: every function of scipipe that the functions above can reach (calls and function values, interface calls
   resolved to every implementation) is one the models were compared with -- a helper that is new to the cone, or a new call
   of an old one, changes a list (the lists are regenerated from /repo on every run; ExpectedCones.v holds the accepted ones) *)
Theorem C04_cone_conforms :
  strs_eqb cone_Process_Run exp_cone_Process_Run
  && strs_eqb cone_Process_createTasks exp_cone_Process_createTasks
  && strs_eqb cone_BaseProcess_receiveOnInPorts exp_cone_BaseProcess_receiveOnInPorts
  && strs_eqb cone_BaseProcess_receiveOnInParamPorts exp_cone_BaseProcess_receiveOnInParamPorts
  && strs_eqb cone_taskQueue_NextTaskDone exp_cone_taskQueue_NextTaskDone
  && strs_eqb cone_InPort_Send exp_cone_InPort_Send
  && strs_eqb cone_InPort_CloseConnection exp_cone_InPort_CloseConnection
  && strs_eqb cone_InParamPort_Send exp_cone_InParamPort_Send
  && strs_eqb cone_InParamPort_CloseConnection exp_cone_InParamPort_CloseConnection
  && strs_eqb cone_OutPort_Send exp_cone_OutPort_Send
  && strs_eqb cone_OutPort_Close exp_cone_OutPort_Close
  && strs_eqb cone_OutParamPort_Send exp_cone_OutParamPort_Send
  && strs_eqb cone_OutParamPort_Close exp_cone_OutParamPort_Close
  && strs_eqb cone_BaseProcess_CloseOutPorts exp_cone_BaseProcess_CloseOutPorts
  && strs_eqb cone_InParamPort_FromStr exp_cone_InParamPort_FromStr
  && strs_eqb cone_Sink_Run exp_cone_Sink_Run = true.
Proof. vm_compute. reflexivity. Qed.

(* ---- one IP object handed to two consumers of an out-port, one of them a tagging component (finding D24, recorded) ----
   TagShare: OutPort.Send gives every connected in-port the same *FileIP; MapToTags adds its tags to the object it received; a
   process reads the tags once, when it forms its task, and its default output name contains them.  What the sibling reads is
   the IP's own tags plus some prefix of the tagger's -- which prefix is up to the schedule ... *)
Theorem C04_shared_ip_views : forall (tag : Type) (init_tags new_tags : list tag) (shared : bool) l s,
  TagShare.run tag init_tags new_tags shared (TagShare.init tag) l = Some s ->
  forall v, TagShare.view tag s = Some v ->
  exists j, j <= List.length new_tags /\ v = (if shared then (init_tags ++ firstn j new_tags)%list else init_tags).
Proof. intros tag i n sh l s. exact (TagShare.view_is_some_prefix tag i n sh l s). Qed.

(* ... so the last sentence of C04 fails for this wiring as soon as the tagger has a tag to add: two complete runs of the same
   workflow on the same inputs in which the sibling saw different tags (and named its output differently) *)
Theorem C04_shared_ip_timing_dependent_refuted : forall (tag : Type) (init_tags new_tags : list tag), new_tags <> [] ->
  exists l1 s1 l2 s2 v1 v2,
    TagShare.run tag init_tags new_tags true (TagShare.init tag) l1 = Some s1 /\ TagShare.complete tag new_tags s1 /\ TagShare.view tag s1 = Some v1 /\
    TagShare.run tag init_tags new_tags true (TagShare.init tag) l2 = Some s2 /\ TagShare.complete tag new_tags s2 /\ TagShare.view tag s2 = Some v2 /\
    v1 <> v2.
Proof. exact TagShare.shared_object_timing_dependent. Qed.

(* a tagger that worked on a copy of its own would leave the sibling's view a function of the input alone *)
Theorem C04_private_copy_deterministic : forall (tag : Type) (init_tags new_tags : list tag) l s,
  TagShare.run tag init_tags new_tags false (TagShare.init tag) l = Some s ->
  forall v, TagShare.view tag s = Some v -> v = init_tags.
Proof. exact TagShare.private_copy_deterministic. Qed.

Theorem C04_shared_ip_nonvacuous :
  exists l1 s1 l2 s2, TagShare.run nat [] [7] true (TagShare.init nat) l1 = Some s1 /\ TagShare.view nat s1 = Some [] /\
                      TagShare.run nat [] [7] true (TagShare.init nat) l2 = Some s2 /\ TagShare.view nat s2 = Some [7].
Proof. exact TagShare.d24. Qed.

Print Assumptions C04_code_conforms.
Print Assumptions C04_tasks_are_zip.
Print Assumptions C04_emitted_exactly_once.
Print Assumptions C04_complete.
Print Assumptions C04_deterministic.
Print Assumptions C04_files_deterministic.
Print Assumptions C04_zip_equation.
Print Assumptions C04_reference_evaluator_zips.
Print Assumptions C04_port_merge.
Print Assumptions C04_port_closes_with_last.
Print Assumptions C04_port_complete.
Print Assumptions C04_port_progress.
Print Assumptions C04_nonvacuous.
Print Assumptions C04_cone_conforms.
Print Assumptions C04_shared_ip_views.
Print Assumptions C04_shared_ip_timing_dependent_refuted.
Print Assumptions C04_private_copy_deterministic.
Print Assumptions C04_shared_ip_nonvacuous.
