(* Prototype: full executable model of Task.TempDir, for the T2 dry run. *)
From Coq Require Import List Ascii String NArith Arith Bool.
Import ListNotations.
Require Import Sha1 PathLex TempNames.

Fixpoint str_ltb (a b : str) : bool :=
  match a, b with
  | [], [] => false
  | [], _ :: _ => true
  | _ :: _, [] => false
  | x :: a', y :: b' =>
    if N.ltb (N_of_ascii x) (N_of_ascii y) then true
    else if N.ltb (N_of_ascii y) (N_of_ascii x) then false else str_ltb a' b'
  end.

Fixpoint ins_kv {V} (kv : str * V) (l : list (str * V)) : list (str * V) :=
  match l with
  | [] => [kv]
  | h :: r => if str_ltb (fst kv) (fst h) then kv :: h :: r else h :: ins_kv kv r
  end.
Definition sort_kv {V} (l : list (str * V)) : list (str * V) := fold_right ins_kv [] l.

Record ident := {
  iname : str;
  iins : list (str * str);
  isubs : list (str * list str);
  iparams : list (str * str);
  itags : list (str * str)
}.

Definition us : ascii := "_"%char.

Definition preimage (i : ident) : str :=
  iname i
  ++ List.concat (flat_map (fun kv => split_all (snd kv)) (sort_kv (iins i)))
  ++ List.concat (flat_map (fun kv => flat_map split_all (snd kv)) (sort_kv (isubs i)))
  ++ List.concat (map (fun kv => fst kv ++ us :: snd kv) (sort_kv (iparams i)))
  ++ List.concat (map (fun kv => fst kv ++ us :: snd kv) (sort_kv (itags i))).

Definition task_tempdir (i : ident) : str := tempdir (iname i) (preimage i).

(* C14_preimage_refuted: "a/b" and "ab" as the input of the same process *)
Definition idA := {| iname := s2l "p"; iins := [(s2l "in", s2l "a/b")]; isubs := []; iparams := []; itags := [] |}.
Definition idB := {| iname := s2l "p"; iins := [(s2l "in", s2l "ab")]; isubs := []; iparams := []; itags := [] |}.
Example C14_preimage_refuted : iins idA <> iins idB /\ task_tempdir idA = task_tempdir idB.
Proof. split; [discriminate|vm_compute; reflexivity]. Qed.
Eval vm_compute in l2s (task_tempdir idA).

