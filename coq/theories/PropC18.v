(* C18 -- A joined in-port receives the whole sub-stream, once, in order. *)
From Coq Require Import List Ascii String Arith Bool.
Import ListNotations.
From SP Require Import Skel Gen Expected ExpectedCones Str PathLex Format WfModel.
Notation length := List.length.

(* T1: NewTask drains the sub-stream channel of every joined port until it is closed, before the command is formatted;
   Process.Run / createTasks are the modelled ones (one task per carrier received) *)
Theorem C18_code_conforms :
  skel_eqb skel_NewTask exp_NewTask
  && skel_eqb skel_Process_createTasks exp_Process_createTasks
  && skel_eqb skel_BaseProcess_receiveOnInPorts exp_BaseProcess_receiveOnInPorts
  && skel_eqb skel_Task_writeAuditLogs exp_Task_writeAuditLogs
  && strs_eqb regexps_Process_initPortsFromCmdPattern exp_regexps_Process_initPortsFromCmdPattern = true.
Proof. vm_compute. reflexivity. Qed.

(* the stream-to-substream adapter emits exactly one carrier, whose members are the items of its upstream, in order *)
Theorem C18_one_carrier : forall (idx : nat) (name : str) (u : nat) (up : str) (sel : list nat) (a : acc),
  existsb (Nat.eqb idx) sel = true ->
  st_get (a_streams (eval_from idx [NS2S name u up] sel a)) idx (s2l "substream")
  = [ISub (flat_map item_paths (st_get (a_streams a) u up))].
Proof.
  intros idx name u up sel a H. simpl. rewrite H. simpl. unfold st_get. simpl.
  rewrite Nat.eqb_refl. simpl. reflexivity.
Qed.

(* hence a process whose only in-port is joined runs exactly once per carrier: one round per item of its column *)
Theorem C18_once : forall (ms : list str),
  min_len [[ISub ms]] = 1 /\ transpose_n (IPath []) 1 [[ISub ms]] = [[ISub ms]].
Proof. intros ms. split; reflexivity. Qed.

(* in the command, the placeholder of a joined port expands to the members, in order, each made resolvable from the
   task's working directory, separated by the separator -- for every length, 0 included *)
Theorem C18_command : forall (infos : list (str * pinfo)) (e : env) (name sep : str) (mods : list str) (ms : list str) (rest : str),
  lookup name infos = Some {| ptype := s2l "i"; pjoin := Some sep |} ->
  lookup name (e_sub e) = Some ms ->
  existsb (fun m => match apply_mods m mods with [] => true | _ => false end) ms = false ->
  split_on pipe rest = name :: mods ->
  replacement infos e (s2l "i") rest = Ok (join_with sep (map (fun m => prepend_parent (apply_mods m mods)) ms)).
Proof.
  intros infos e name sep mods ms rest Hi Hs Hne Hsp.
  unfold replacement. rewrite Hsp. simpl hd. simpl tl. rewrite Hi. simpl ptype. simpl pjoin.
  change (str_eqb (s2l "i") (s2l "o")) with false. change (str_eqb (s2l "i") (s2l "os")) with false.
  change (str_eqb (s2l "i") (s2l "i")) with true. cbv iota. rewrite Hs, Hne. reflexivity.
Qed.

(* each member is resolvable from inside the temp dir: relative paths get one "../", absolute paths stay *)
Theorem C18_resolvable : forall q : str, q <> [] ->
  (hd sl q = sl -> prepend_parent q = q) /\ (hd sl q <> sl -> prepend_parent q = (s2l "../" ++ q)%list).
Proof.
  intros q Hq. destruct q as [|c r]; [congruence|]. unfold prepend_parent. simpl hd. split; intros H.
  - subst c. reflexivity.
  - destruct (Ascii.eqb c sl) eqn:E; [apply Ascii.eqb_eq in E; congruence|reflexivity].
Qed.

(* worked example: three members, separator ":", a suffix modifier *)
Theorem C18_example :
  format_command (s2l "cat {i:x|join::|%.txt} > {o:out}")
     {| e_in := [(s2l "x", s2l "carrier")]; e_sub := [(s2l "x", [s2l "a.txt"; s2l "d/b.txt"; s2l "/abs/c.txt"])];
        e_out := [(s2l "out", s2l "res.txt")]; e_par := []; e_tag := [] |}
  = Ok (s2l "cat ../a:../d/b:/abs/c > res.txt").
Proof. vm_compute. reflexivity. Qed.

(* T1, call cones: every function of scipipe that the functions above can reach (calls and function values, interface calls
   resolved to every implementation) is one the models were compared with -- a helper that is new to the cone, or a new call
   of an old one, changes a list (the lists are regenerated from /repo on every run; ExpectedCones.v holds the accepted ones) *)
Theorem C18_cone_conforms :
  strs_eqb cone_NewTask exp_cone_NewTask
  && strs_eqb cone_Process_createTasks exp_cone_Process_createTasks
  && strs_eqb cone_BaseProcess_receiveOnInPorts exp_cone_BaseProcess_receiveOnInPorts
  && strs_eqb cone_Task_writeAuditLogs exp_cone_Task_writeAuditLogs = true.
Proof. vm_compute. reflexivity. Qed.

Print Assumptions C18_code_conforms.
Print Assumptions C18_one_carrier.
Print Assumptions C18_once.
Print Assumptions C18_command.
Print Assumptions C18_resolvable.
Print Assumptions C18_example.
Print Assumptions C18_cone_conforms.
