(* Prototype: the placeholder scanner finds exactly the placeholders of a rendered pattern (C15_parse_render). *)
From Coq Require Import List Ascii String Arith Lia Bool.
Import ListNotations.
Require Import Str PathLex Format.
Notation length := List.length.

Inductive piece := Txt (u : str) | PhK (k rest : str).

Definition render1 (k rest : str) : str := lbr :: k ++ colon :: rest ++ [rbr].
Definition pstr (p : piece) : str := match p with Txt u => u | PhK k rest => render1 k rest end.
Definition flat (ps : list piece) : str := List.concat (map pstr ps).

Definition no_lbr (u : str) := ~ In lbr u.
Definition bfree (u : str) := forall c, In c u -> nobrace c = true.

Definition piece_ok (p : piece) : Prop :=
  match p with
  | Txt u => no_lbr u
  | PhK k rest => In k kinds /\ rest <> [] /\ bfree rest
  end.

Fixpoint phs (ps : list piece) : list (str * str * str) :=
  match ps with
  | [] => []
  | Txt _ :: r => phs r
  | PhK k rest :: r => (render1 k rest, k, rest) :: phs r
  end.

Lemma span_bfree rest tail : bfree rest -> span nobrace (rest ++ rbr :: tail) = (rest, rbr :: tail).
Proof.
  induction rest as [|c r IH]; intros H; simpl.
  - reflexivity.
  - rewrite (H c) by (left; reflexivity). rewrite IH by (intros x Hx; apply H; right; exact Hx). reflexivity.
Qed.

Lemma find_kind k rest tail : In k kinds ->
  find (fun k' => prefixb (k' ++ [colon]) (k ++ colon :: rest ++ tail)) kinds = Some k.
Proof.
  intros H. unfold kinds in H. simpl in H.
  repeat (destruct H as [<-|H]; [reflexivity|]). destruct H.
Qed.

Lemma match_here_ph k rest tail : In k kinds -> rest <> [] -> bfree rest ->
  match_here (render1 k rest ++ tail) = Some (k, rest, length k + length rest + 3).
Proof.
  intros Hk Hr Hb. unfold render1, match_here. cbn [app]. rewrite Ascii.eqb_refl.
  replace ((k ++ colon :: rest ++ [rbr]) ++ tail) with (k ++ colon :: rest ++ (rbr :: tail))
    by (rewrite <- !app_assoc; simpl; rewrite <- app_assoc; reflexivity).
  rewrite (find_kind k rest (rbr :: tail) Hk).
  replace (skipn (length k + 1) (k ++ colon :: rest ++ rbr :: tail)) with (rest ++ rbr :: tail).
  2:{ replace (length k + 1) with (length (k ++ [colon])) by (rewrite app_length; reflexivity).
      replace (k ++ colon :: rest ++ rbr :: tail) with ((k ++ [colon]) ++ rest ++ rbr :: tail) by (rewrite <- app_assoc; reflexivity).
      rewrite skipn_app, skipn_all, Nat.sub_diag. reflexivity. }
  rewrite span_bfree by assumption.
  destruct rest as [|c r]; [congruence|]. rewrite Ascii.eqb_refl. reflexivity.
Qed.

Lemma match_here_txt c u tail : c <> lbr -> match_here (c :: u ++ tail) = None.
Proof.
  intros H. unfold match_here. destruct (Ascii.eqb_spec c lbr); [congruence|reflexivity].
Qed.

Lemma find_all_skip u : forall tail, find_all (u ++ tail) (length u) = find_all tail 0.
Proof. induction u as [|c r IH]; intros tail; simpl; auto. Qed.

Lemma find_all_txt u : forall tail, no_lbr u -> find_all (u ++ tail) 0 = find_all tail 0.
Proof.
  induction u as [|c r IH]; intros tail H; simpl app; [reflexivity|].
  assert (Hc : c <> lbr) by (intros E; apply H; left; auto).
  assert (Hr : no_lbr r) by (intros E; apply H; right; exact E).
  cbn [find_all]. fold (app r tail). rewrite (match_here_txt c r tail Hc). apply IH; auto.
Qed.

Theorem C15_parse_render ps : Forall piece_ok ps -> find_all (flat ps) 0 = phs ps.
Proof.
  induction 1 as [|p ps Hp Hps IH]; [reflexivity|].
  unfold flat in *. cbn [map List.concat]. destruct p as [u|k rest]; cbn [pstr phs piece_ok] in *.
  - rewrite find_all_txt by assumption. exact IH.
  - destruct Hp as [Hk [Hr Hb]].
    set (tail := List.concat (map pstr ps)) in *.
    assert (E : render1 k rest ++ tail = lbr :: (k ++ colon :: rest ++ [rbr]) ++ tail) by reflexivity.
    rewrite E. cbn [find_all]. rewrite <- E. rewrite (match_here_ph k rest tail Hk Hr Hb).
    f_equal.
    + f_equal. f_equal.
      replace (length k + length rest + 3) with (length (render1 k rest))
        by (unfold render1; simpl; rewrite !app_length; simpl; rewrite app_length; simpl; lia).
      rewrite firstn_app, firstn_all, Nat.sub_diag. cbn [firstn]. apply app_nil_r.
    + replace (length k + length rest + 3 - 1) with (length ((k ++ colon :: rest ++ [rbr])))
        by (rewrite !app_length; simpl; rewrite app_length; simpl; lia).
      rewrite find_all_skip. exact IH.
Qed.
Print Assumptions C15_parse_render.
