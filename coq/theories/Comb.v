(* Prototype: FileCombinator / ParamCombinator `combine` computes the aligned Cartesian product (C19). *)
From Coq Require Import List Arith Lia.
Import ListNotations.

Section Comb.
Variable A : Type.

(* streams in key order; result: aligned streams in the same key order *)
Fixpoint comb (ss : list (list A)) : list (list A) :=
  match ss with
  | [] => []
  | h :: t =>
    match t with
    | [] => [h]
    | _ =>
      let t' := comb t in
      let n := length (hd [] t') in
      flat_map (fun a => repeat a n) h :: map (fun tj => concat (repeat tj (length h))) t'
    end
  end.

(* reference: the Cartesian product as a list of tuples, first key most significant *)
Fixpoint prod (ss : list (list A)) : list (list A) :=
  match ss with
  | [] => [[]]
  | h :: t => flat_map (fun a => map (cons a) (prod t)) h
  end.

Definition col (j : nat) (tuples : list (list A)) : list (option A) := map (fun tup => nth_error tup j) tuples.

Lemma comb_cons2 h h' t' :
  comb (h :: h' :: t') =
  flat_map (fun a => repeat a (length (hd [] (comb (h' :: t'))))) h ::
  map (fun tj => concat (repeat tj (length h))) (comb (h' :: t')).
Proof. reflexivity. Qed.

Lemma comb_length ss : length (comb ss) = length ss.
Proof.
  induction ss as [|h t IH]; [reflexivity|]. destruct t as [|h' t']; [reflexivity|].
  rewrite comb_cons2. cbn [length]. rewrite map_length, IH. reflexivity.
Qed.

Lemma col0_flat (h : list A) (P : list (list A)) :
  col 0 (flat_map (fun a => map (cons a) P) h) = flat_map (fun a => repeat (Some a) (length P)) h.
Proof.
  unfold col. induction h as [|a h IH]; [reflexivity|]. cbn [flat_map].
  rewrite map_app, IH. f_equal. rewrite map_map. cbn [nth_error].
  clear. induction P; simpl; auto. now rewrite IHP.
Qed.

Lemma colS_flat j (h : list A) (P : list (list A)) :
  col (S j) (flat_map (fun a => map (cons a) P) h) = concat (repeat (col j P) (length h)).
Proof.
  unfold col. induction h as [|a h IH]; [reflexivity|]. cbn [flat_map length repeat concat].
  rewrite map_app, IH. f_equal. rewrite map_map. reflexivity.
Qed.

Lemma map_some_flat_repeat (h : list A) n :
  map Some (flat_map (fun a => repeat a n) h) = flat_map (fun a => repeat (Some a) n) h.
Proof.
  induction h as [|a h IH]; simpl; auto. rewrite map_app, IH. f_equal.
  clear. induction n; simpl; auto. now rewrite IHn.
Qed.

Lemma map_some_concat_repeat (l : list A) n :
  map Some (concat (repeat l n)) = concat (repeat (map Some l) n).
Proof. induction n; simpl; auto. now rewrite map_app, IHn. Qed.

(* every out-stream is the corresponding column of the product: the streams are
   aligned and together enumerate each combination exactly once *)
Theorem comb_is_product ss : forall j, j < length ss ->
  map Some (nth j (comb ss) []) = col j (prod ss).
Proof.
  induction ss as [|h t IH]; intros j Hj; simpl in Hj; [lia|].
  destruct t as [|h' t'].
  - (* single stream: identity *)
    simpl in Hj. assert (j = 0) by lia. subst. cbn [comb nth prod]. unfold col.
    clear. induction h as [|a h IHh]; [reflexivity|]. cbn [flat_map map app]. now rewrite IHh.
  - rewrite comb_cons2. set (t := h' :: t') in *.
    assert (Hlen0 : length (hd [] (comb t)) = length (prod t)).
    { assert (H0 : 0 < length t) by (subst t; simpl; lia).
      specialize (IH 0 H0).
      assert (E : length (map Some (nth 0 (comb t) [])) = length (col 0 (prod t))) by now rewrite IH.
      unfold col in E. rewrite !map_length in E. rewrite <- E.
      destruct (comb t); reflexivity. }
    change (prod (h :: t)) with (flat_map (fun a => map (cons a) (prod t)) h).
    destruct j as [|j].
    + cbn [nth]. rewrite col0_flat, map_some_flat_repeat, Hlen0. reflexivity.
    + cbn [nth]. rewrite colS_flat.
      assert (Hj' : j < length t) by (cbn [length] in Hj; lia).
      rewrite <- (IH j Hj').
      assert (Hn : j < length (comb t)) by (rewrite comb_length; exact Hj').
      rewrite (nth_indep _ [] (concat (repeat [] (length h)))) by (rewrite map_length; exact Hn).
      rewrite (map_nth (fun tj => concat (repeat tj (length h)))).
      apply map_some_concat_repeat.
Qed.

Theorem comb_lengths ss j : j < length ss -> length (nth j (comb ss) []) = length (prod ss).
Proof.
  intros Hj. pose proof (comb_is_product ss j Hj) as E.
  assert (L : length (map Some (nth j (comb ss) [])) = length (col j (prod ss))) by now rewrite E.
  unfold col in L. now rewrite !map_length in L.
Qed.


(* ---- the reference product itself: what "each element of the Cartesian product exactly once" means ---- *)
Lemma prod_spec ss : forall tup, In tup (prod ss) <-> Forall2 (fun a s => In a s) tup ss.
Proof.
  induction ss as [|h t IH]; intros tup; simpl.
  - split; [intros [<-|[]]; constructor|intros H; inversion H; auto].
  - rewrite in_flat_map. split.
    + intros [a [Ha Hm]]. apply in_map_iff in Hm. destruct Hm as [r [<- Hr]]. constructor; auto. apply IH. exact Hr.
    + intros H. inversion H; subst. exists x. split; auto. apply in_map. apply IH. assumption.
Qed.

Fixpoint lprod (ss : list (list A)) : nat := match ss with [] => 1 | h :: t => length h * lprod t end.

Lemma flat_map_const_length {B} (h : list B) (f : B -> list (list A)) n :
  (forall a, length (f a) = n) -> length (flat_map f h) = length h * n.
Proof. intros H. induction h as [|a r IH]; simpl; auto. rewrite app_length, H, IH. lia. Qed.

Lemma prod_length ss : length (prod ss) = lprod ss.
Proof.
  induction ss as [|h t IH]; simpl; auto.
  rewrite (flat_map_const_length h _ (lprod t)); auto. intros a. rewrite map_length. exact IH.
Qed.

Lemma nodup_flat_map_disjoint {B} (h : list B) (f : B -> list (list A)) :
  NoDup h -> (forall a, In a h -> NoDup (f a)) ->
  (forall a b x, In a h -> In b h -> a <> b -> In x (f a) -> ~ In x (f b)) -> NoDup (flat_map f h).
Proof.
  induction h as [|a r IH]; intros ND Hf Hd; simpl; [constructor|].
  inversion ND; subst.
  assert (G : forall l1 l2 : list (list A), NoDup l1 -> NoDup l2 -> (forall x, In x l1 -> ~ In x l2) -> NoDup (l1 ++ l2)).
  { induction l1 as [|y l1 IHl]; simpl; intros l2 N1 N2 D; auto. inversion N1; subst. constructor.
    - rewrite in_app_iff. intros [E|E]; [contradiction|]. apply (D y); [left; reflexivity|exact E].
    - apply IHl; auto. }
  apply G.
  - apply Hf. left; reflexivity.
  - apply IH; auto. + intros b Hb. apply Hf. right; exact Hb. + intros b c x Hb Hc. apply Hd; right; assumption.
  - intros x Hx Hin. apply in_flat_map in Hin. destruct Hin as [b [Hb Hxb]].
    apply (Hd a b x); auto. + left; reflexivity. + right; exact Hb. + intros ->. contradiction.
Qed.

(* with duplicate-free input streams every combination occurs exactly once *)
Theorem prod_nodup ss : Forall (@NoDup A) ss -> NoDup (prod ss).
Proof.
  induction ss as [|h t IH]; intros H; simpl.
  - constructor; [intros []|constructor].
  - inversion H; subst. apply nodup_flat_map_disjoint; auto.
    + intros a _. specialize (IH H3). clear -IH. induction (prod t) as [|y l IHl]; simpl; [constructor|].
      inversion IH; subst. constructor; auto. intros Hin. apply in_map_iff in Hin. destruct Hin as [z [E Hz]]. inversion E; subst. contradiction.
    + intros a b x _ _ Hab Hx Hy. apply in_map_iff in Hx. apply in_map_iff in Hy.
      destruct Hx as [r1 [<- _]]. destruct Hy as [r2 [E _]]. inversion E. congruence.
Qed.

End Comb.
Print Assumptions comb_is_product.
Eval vm_compute in comb nat [[1;2];[10;20;30]].
Eval vm_compute in comb nat [[1;2];[];[7]].
