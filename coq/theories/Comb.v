(* Prototype: FileCombinator / ParamCombinator `combine` computes the aligned Cartesian product (C19). *)
From Coq Require Import List Arith Lia.
Import ListNotations.

Section Comb.
Variable A : Type.

(* streams in key order; result: aligned streams in the same key order *)
Fixpoint comb (ss : list (list A)) : list (list A) :=
  match ss with
  | [] => []
  | h :: t =>
    match t with
    | [] => [h]
    | _ =>
      let t' := comb t in
      let n := length (hd [] t') in
      flat_map (fun a => repeat a n) h :: map (fun tj => concat (repeat tj (length h))) t'
    end
  end.

(* reference: the Cartesian product as a list of tuples, first key most significant *)
Fixpoint prod (ss : list (list A)) : list (list A) :=
  match ss with
  | [] => [[]]
  | h :: t => flat_map (fun a => map (cons a) (prod t)) h
  end.

Definition col (j : nat) (tuples : list (list A)) : list (option A) := map (fun tup => nth_error tup j) tuples.

Lemma comb_cons2 h h' t' :
  comb (h :: h' :: t') =
  flat_map (fun a => repeat a (length (hd [] (comb (h' :: t'))))) h ::
  map (fun tj => concat (repeat tj (length h))) (comb (h' :: t')).
Proof. reflexivity. Qed.

Lemma comb_length ss : length (comb ss) = length ss.
Proof.
  induction ss as [|h t IH]; [reflexivity|]. destruct t as [|h' t']; [reflexivity|].
  rewrite comb_cons2. cbn [length]. rewrite map_length, IH. reflexivity.
Qed.

Lemma col0_flat (h : list A) (P : list (list A)) :
  col 0 (flat_map (fun a => map (cons a) P) h) = flat_map (fun a => repeat (Some a) (length P)) h.
Proof.
  unfold col. induction h as [|a h IH]; [reflexivity|]. cbn [flat_map].
  rewrite map_app, IH. f_equal. rewrite map_map. cbn [nth_error].
  clear. induction P; simpl; auto. now rewrite IHP.
Qed.

Lemma colS_flat j (h : list A) (P : list (list A)) :
  col (S j) (flat_map (fun a => map (cons a) P) h) = concat (repeat (col j P) (length h)).
Proof.
  unfold col. induction h as [|a h IH]; [reflexivity|]. cbn [flat_map length repeat concat].
  rewrite map_app, IH. f_equal. rewrite map_map. reflexivity.
Qed.

Lemma map_some_flat_repeat (h : list A) n :
  map Some (flat_map (fun a => repeat a n) h) = flat_map (fun a => repeat (Some a) n) h.
Proof.
  induction h as [|a h IH]; simpl; auto. rewrite map_app, IH. f_equal.
  clear. induction n; simpl; auto. now rewrite IHn.
Qed.

Lemma map_some_concat_repeat (l : list A) n :
  map Some (concat (repeat l n)) = concat (repeat (map Some l) n).
Proof. induction n; simpl; auto. now rewrite map_app, IHn. Qed.

(* every out-stream is the corresponding column of the product: the streams are
   aligned and together enumerate each combination exactly once *)
Theorem comb_is_product ss : forall j, j < length ss ->
  map Some (nth j (comb ss) []) = col j (prod ss).
Proof.
  induction ss as [|h t IH]; intros j Hj; simpl in Hj; [lia|].
  destruct t as [|h' t'].
  - (* single stream: identity *)
    simpl in Hj. assert (j = 0) by lia. subst. cbn [comb nth prod]. unfold col.
    clear. induction h as [|a h IHh]; [reflexivity|]. cbn [flat_map map app]. now rewrite IHh.
  - rewrite comb_cons2. set (t := h' :: t') in *.
    assert (Hlen0 : length (hd [] (comb t)) = length (prod t)).
    { assert (H0 : 0 < length t) by (subst t; simpl; lia).
      specialize (IH 0 H0).
      assert (E : length (map Some (nth 0 (comb t) [])) = length (col 0 (prod t))) by now rewrite IH.
      unfold col in E. rewrite !map_length in E. rewrite <- E.
      destruct (comb t); reflexivity. }
    change (prod (h :: t)) with (flat_map (fun a => map (cons a) (prod t)) h).
    destruct j as [|j].
    + cbn [nth]. rewrite col0_flat, map_some_flat_repeat, Hlen0. reflexivity.
    + cbn [nth]. rewrite colS_flat.
      assert (Hj' : j < length t) by (cbn [length] in Hj; lia).
      rewrite <- (IH j Hj').
      assert (Hn : j < length (comb t)) by (rewrite comb_length; exact Hj').
      rewrite (nth_indep _ [] (concat (repeat [] (length h)))) by (rewrite map_length; exact Hn).
      rewrite (map_nth (fun tj => concat (repeat tj (length h)))).
      apply map_some_concat_repeat.
Qed.

Theorem comb_lengths ss j : j < length ss -> length (nth j (comb ss) []) = length (prod ss).
Proof.
  intros Hj. pose proof (comb_is_product ss j Hj) as E.
  assert (L : length (map Some (nth j (comb ss) [])) = length (col j (prod ss))) by now rewrite E.
  unfold col in L. now rewrite !map_length in L.
Qed.

End Comb.
Print Assumptions comb_is_product.
Eval vm_compute in comb nat [[1;2];[10;20;30]].
Eval vm_compute in comb nat [[1;2];[];[7]].
