From Coq Require Import List Arith Lia Bool PeanoNat.
Import ListNotations.
Require Import Result TaskFS TInv.

Section Pres.
Variable c : cfg.
Variable f0 : fs.
Hypothesis WF : wfc c.

Notation Inv := (Inv c f0).
Notation TInv := (TInv c f0).

Lemma opt_dec (a b : option content) : {a = b} + {a <> b}.
Proof. decide equality. apply Nat.eq_dec. Qed.

Lemma frame s s' t :
  Inv s -> t < nt c ->
  is_done (pcs s t) = false ->
  (forall t', t' <> t -> pcs s' t' = pcs s t' /\ tmp s' t' = tmp s t' /\ val s' t' = val s t') ->
  (forall x, fin s' x <> fin s x -> In x (tout (tk c t)) /\ exists todo, pcs s t = Ren (x :: todo)) ->
  TInv s' t ->
  Inv s'.
Proof.
  intros [HT HG] Ht Hnd Hoth Hfin Hnew. split.
  - intros t' Ht'. destruct (Nat.eq_dec t' t) as [->|Hne]; auto.
    destruct (Hoth t' Hne) as [Ep [Et Ev]]. destruct (HT t' Ht') as [a1 a2 a3 a4 a5 a6 a7].
    assert (Hsame : forall x, In x (tout (tk c t')) -> fin s' x = fin s x).
    { intros x Hx. destruct (opt_dec (fin s' x) (fin s x)) as [E|E]; auto.
      destruct (Hfin x E) as [Hin _]. exfalso. eapply (w_disj c WF t' t x); eauto. }
    constructor; rewrite ?Ep, ?Et, ?Ev.
    + intros x Hx. rewrite (Hsame x Hx). auto.
    + auto.
    + intros Hp. rewrite <- (a3 Hp). f_equal. apply map_ext_in. intros y Hy.
      destruct (opt_dec (fin s' y) (fin s y)) as [E|E]; auto.
      destruct (Hfin y E) as [Hin [todo Hr]]. exfalso.
      assert (Hlt : t < t').
      { destruct (Nat.lt_ge_cases t t') as [L|L]; auto. exfalso. eapply (w_topo c WF t' t y); eauto. }
      assert (Hsh : shares (tout (tk c t)) (tin (tk c t')) = true) by (apply shares_true; eauto).
      assert (Hw : pcs s t' <> Wait) by (intros W; rewrite W in Hp; discriminate).
      specialize (a6 Hw t Hlt Hsh). rewrite Hr in a6. discriminate.
    + auto.
    + auto.
    + intros Hw d Hd Hsh. destruct (Nat.eq_dec d t) as [->|Hdt].
      * specialize (a6 Hw t Hd Hsh). congruence.
      * destruct (Hoth d Hdt) as [Epd _]. rewrite Epd. auto.
    + auto.
  - intros x Hx. destruct (opt_dec (fin s' x) (fin s x)) as [E|E].
    + rewrite E. auto.
    + destruct (Hfin x E) as [Hin _]. exfalso. eapply Hx; eauto.
Qed.


Lemma is_perm_in l1 : forall l2, is_perm l1 l2 = true -> NoDup l2 -> (forall x, In x l1 <-> In x l2) /\ NoDup l1.
Proof.
  induction l1 as [|a r IH]; intros l2 H ND; simpl in H.
  - destruct l2; [|discriminate]. split; [tauto|constructor].
  - apply andb_true_iff in H. destruct H as [Ha Hr]. apply existsb_eqb_In in Ha.
    assert (ND' : NoDup (remove Nat.eq_dec a l2)).
    { clear -ND. induction l2; simpl; [constructor|]. inversion ND; subst.
      destruct (Nat.eq_dec a a0); auto. constructor; auto. intros Hc. apply in_remove in Hc. tauto. }
    destruct (IH _ Hr ND') as [Hin NDr]. split.
    + intros x. simpl. rewrite Hin. split.
      * intros [<-|Hx]; auto. apply in_remove in Hx. tauto.
      * intros Hx. destruct (Nat.eq_dec a x); auto. right. apply in_in_remove; auto.
    + constructor; auto. rewrite Hin. intros Hc. apply in_remove in Hc. tauto.
Qed.

Lemma lookup_some_in x os cs v : lookup x os cs = Some v -> In x os.
Proof.
  revert cs; induction os as [|o os IH]; intros [|c0 cs] H; simpl in *; try discriminate.
  destruct (Nat.eqb_spec x o); auto. right. eapply IH; eauto.
Qed.

Lemma write_tmp_out f os cs omit x : ~ In x os -> write_tmp f os cs omit x = f x.
Proof.
  revert f cs; induction os as [|o os IH]; intros f [|c0 cs] H; simpl; auto.
  rewrite IH by (intros H'; apply H; right; exact H').
  destruct (Nat.eqb_spec x o); auto. subst. exfalso. apply H. left; reflexivity.
Qed.

Lemma write_tmp_spec f os cs omit x : NoDup os -> length cs = length os -> In x os ->
  write_tmp f os cs omit x = if existsb (Nat.eqb x) omit then None else lookup x os cs.
Proof.
  revert f cs; induction os as [|o os IH]; intros f [|c0 cs] ND Hl Hin; simpl in *; try lia; try tauto.
  inversion ND; subst. destruct (Nat.eqb_spec x o) as [->|Hne].
  - rewrite write_tmp_out by assumption. now rewrite Nat.eqb_refl.
  - destruct Hin as [->|Hin]; [congruence|]. apply IH; auto.
Qed.

Lemma any_exists_false f l : any_exists f l = false -> forall x, In x l -> f x = None.
Proof.
  unfold any_exists. intros H x Hx. destruct (f x) eqn:E; auto.
  assert (existsb (fun o => isSome (f o)) l = true).
  { apply existsb_exists. exists x. rewrite E. auto. } congruence.
Qed.

Lemma step_fail_inv s : Inv s -> Inv (fail s).
Proof. intros [HT HG]. split; auto. intros t Ht. destruct (HT t Ht). constructor; auto. Qed.

Ltac others := solve [let t' := fresh in let Hne := fresh in intros t' Hne; simpl; rewrite ?upd_other by assumption; auto].
Ltac nofin := solve [let y := fresh in let Hy := fresh in intros y Hy; simpl in Hy; congruence].

(* the seven fields, with premises that are impossible for the new pc closed automatically *)
Ltac fields := constructor; simpl; rewrite ?upd_same;
  try (intros; discriminate); try (intros ? ?; discriminate); try (intros ? ? ?; discriminate).

Ltac use_deps a6 := intros _ d Hd Hs; rewrite upd_other by lia; apply a6; auto; discriminate.

Theorem step_inv s a s' : Inv s -> step c s a = Some s' -> Inv s'.
Proof.
  intros HI. pose proof HI as [HT HG]. unfold step.
  destruct (exited s) eqn:Ex; [discriminate|].
  destruct (Nat.ltb (node_of a) (nt c)) eqn:Hlt; simpl; [|discriminate]. apply Nat.ltb_lt in Hlt.
  destruct a as [t|t|t|t|t x cnt|t omit|t|t perm|t|t|t]; simpl in Hlt;
    pose proof (HT t Hlt) as TI; destruct TI as [a1 a2 a3 a4 a5 a6 a7];
    destruct (pcs s t) eqn:P; try discriminate.
  - (* AStart *)
    destruct (deps_done c s t) eqn:D; [|discriminate]. intros H; injection H as <-.
    apply frame with (s := s) (t := t); auto; try (rewrite P; reflexivity); try others; try nofin.
    fields.
    + intros x Hx. apply a1; auto.
    + intros _ d Hd Hs. unfold deps_done in D. rewrite forallb_forall in D.
      assert (Hi : In d (seq 0 t)) by (apply in_seq; lia). specialize (D d Hi).
      rewrite Hs in D. simpl in D. rewrite upd_other by lia. exact D.
  - (* AChkTemp *)
    destruct (tdir s t); intros H; injection H as <-; [apply step_fail_inv; auto|].
    apply frame with (s := s) (t := t); auto; try (rewrite P; reflexivity); try others; try nofin.
    fields.
    + intros x Hx. apply a1; auto.
    + use_deps a6.
  - (* AChkOut *)
    assert (Hag : forall x, In x (tout (tk c t)) -> fin s x = f0 x).
    { intros x Hx. apply a1; auto. }
    destruct (any_exists (fin s) (tout (tk c t))) eqn:A; intros H; injection H as <-.
    + apply frame with (s := s) (t := t); auto; try (rewrite P; reflexivity); try others; try nofin.
      fields.
      * intros x Hx. apply a1; auto.
      * use_deps a6.
      * intros _. rewrite <- A. symmetry. apply any_exists_agree. exact Hag.
    + apply frame with (s := s) (t := t); auto; try (rewrite P; reflexivity); try others; try nofin.
      fields.
      * intros x Hx. apply a1; auto.
      * intros _ x Hx. rewrite <- Hag by assumption. eapply any_exists_false; eauto.
      * use_deps a6.
  - (* AMkTemp *)
    intros H; injection H as <-.
    apply frame with (s := s) (t := t); auto; try (rewrite P; reflexivity); try others; try nofin.
    fields.
    + intros x Hx. apply a1; auto.
    + intros _. apply a2; auto.
    + use_deps a6.
  - (* AWrite *)
    intros H; injection H as <-.
    apply frame with (s := s) (t := t); auto; try (rewrite P; reflexivity); try others; try nofin.
    constructor; simpl; rewrite ?P; try (intros; discriminate); try (intros ? ?; discriminate).
    + intros y Hy. apply a1; auto.
    + intros _. apply a2; auto.
    + intros _ d Hd Hs. apply a6; auto; discriminate.
  - (* ACmdOk *)
    destruct (sem (tk c t) (map (fin s) (tin (tk c t)))) as [cs|] eqn:S; [|discriminate].
    intros H; injection H as <-.
    apply frame with (s := s) (t := t); auto; try (rewrite P; reflexivity); try others; try nofin.
    fields.
    + intros x Hx. split; [intros Hc; exact (False_ind _ Hc)|]. intros _. apply a1; auto.
    + intros _. apply a2; auto.
    + intros _. exact S.
    + intros _ x v Hx Htv. rewrite write_tmp_spec in Htv; auto.
      * destruct (existsb (Nat.eqb x) omit); [discriminate|assumption].
      * apply (w_nodup c WF); auto.
      * eapply (w_len c WF); eauto.
    + use_deps a6.
  - (* ACmdFail *)
    intros H; injection H as <-. apply step_fail_inv; auto.
  - (* AEnsure *)
    destruct (forallb (fun x => isSome (tmp s t x)) (tout (tk c t))) eqn:F.
    + destruct (is_perm perm (tout (tk c t))) eqn:Hp; [|discriminate]. intros H; injection H as <-.
      destruct (is_perm_in _ _ Hp (w_nodup c WF t Hlt)) as [Hin NDp].
      apply frame with (s := s) (t := t); auto; try (rewrite P; reflexivity); try others; try nofin.
      fields.
      * intros x Hx. split.
        -- intros Hc. exfalso. apply Hc. apply Hin; assumption.
        -- intros _. apply a1; auto.
      * intros _. apply a2; auto.
      * intros _. apply a3. reflexivity.
      * intros todo E. injection E as <-. split; auto. intros x Hx. apply Hin in Hx. split; auto.
        rewrite forallb_forall in F. specialize (F x Hx). destruct (tmp s t x) as [v|] eqn:Tv; [|discriminate].
        exists v. split; auto.
      * use_deps a6.
    + intros H; injection H as <-. apply step_fail_inv; auto.
  - (* ARename *)
    destruct todo as [|x todo]; [discriminate|]. intros H; injection H as <-.
    destruct (a5 _ eq_refl) as [ND Hall]. apply NoDup_cons_iff in ND. destruct ND as [Hnin ND].
    destruct (Hall x (or_introl eq_refl)) as [Hxo [v [Htv Hlv]]].
    apply frame with (s := s) (t := t); auto; try (rewrite P; reflexivity); try others.
    + intros y Hy. simpl in Hy. destruct (Nat.eq_dec y x) as [E|E].
      * subst y. split; eauto.
      * exfalso. apply Hy. apply upd_other; assumption.
    + fields.
      * intros y Hy. unfold upd at 1 2 3. destruct (Nat.eqb_spec y x) as [->|Hne].
        -- split; [|intros Hc; exfalso; apply Hc; exact Hnin]. intros _. rewrite Htv, Hlv. split; congruence.
        -- destruct (a1 y Hy) as [b1 b2]. simpl in b1, b2. split; intros Hc.
           ++ simpl in Hc. apply b1. intros [E|E]; [congruence|exact (Hc E)].
           ++ apply b2. intros Hc'. apply Hc. simpl. intros E. apply Hc'. right; exact E.
      * intros _. apply a2; auto.
      * intros _. rewrite <- a3 by reflexivity. f_equal. apply map_ext_in. intros y Hy.
        unfold upd. destruct (Nat.eqb_spec y x) as [->|Hne]; auto.
        exfalso. eapply (w_topo c WF t t x); eauto.
      * intros todo' E. injection E as <-. split; auto. intros y Hy.
        destruct (Hall y (or_intror Hy)) as [Hyo [w [Htw Hlw]]].
        split; auto. exists w. split; auto.
        rewrite upd_other; [exact Htw|]. intros E. subst y. tauto.
      * use_deps a6.
  - (* AEndRen *)
    destruct todo; [|discriminate]. intros H; injection H as <-.
    apply frame with (s := s) (t := t); auto; try (rewrite P; reflexivity); try others; try nofin.
    fields.
    + intros x Hx. destruct (a1 x Hx) as [b1 b2]. simpl in b1. split; [|intros Hc; exfalso; apply Hc; exact I]. intros _. apply b1. intros [].
    + intros _. apply a2; auto.
    + intros _. apply a3. reflexivity.
    + use_deps a6.
  - (* ARmTemp *)
    intros H; injection H as <-.
    apply frame with (s := s) (t := t); auto; try (rewrite P; reflexivity); try others; try nofin.
    fields.
    + intros x Hx. apply a1; auto.
    + intros _. apply a2; auto.
    + intros _. apply a3. reflexivity.
    + use_deps a6.
Qed.

End Pres.
Print Assumptions step_inv.
