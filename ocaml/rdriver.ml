(* rdriver: history replay.  Reads a script (produced by tools/replay.py from the hook event log of one real run),
   builds the configuration and the script lines of one of the three transition systems of the Coq development,
   calls the extracted [replay] (Replay.v) and prints the verdict and the state it ends in.
   Everything that decides is extracted code; this file only parses and prints. *)
open Rmodel

let rec nat_of_int i = if i <= 0 then O else S (nat_of_int (i - 1))
let rec int_of_nat = function O -> 0 | S n -> 1 + int_of_nat n
let nl l = List.map nat_of_int l
let il l = List.map int_of_nat l
let ints l = String.concat " " (List.map string_of_int l)

type tk = { mutable t : string list }
let next k = match k.t with x :: r -> k.t <- r; x | [] -> failwith "eol"
let int k = int_of_string (next k)
let more k = k.t <> []
let intl k = let n = int k in List.init n (fun _ -> int k)

let read_lines () =
  let l = ref [] in
  (try while true do
     let s = input_line stdin in
     let toks = List.filter (fun t -> t <> "") (String.split_on_char ' ' s) in
     if toks <> [] then l := toks :: !l
   done with End_of_file -> ());
  List.rev !l

let why = function 0 -> "action-not-enabled" | 1 -> "operation-not-linearisable-before-its-end" | _ -> "observation-contradicts-state"

(* ------------------------------------------------------------------ slots *)
let slots_dump s =
  let n = int_of_nat (RSI.ntasks s) in
  Printf.printf "tokens %d\n" (int_of_nat (RSI.tokens_of s));
  Printf.printf "mutex %s\n" (match RSI.mutex_of s with None -> "-" | Some i -> string_of_int (int_of_nat i));
  for i = 0 to n - 1 do
    let (a, b) = RSI.task_tag s (nat_of_int i) in
    Printf.printf "task %d %d %d\n" i (int_of_nat a) (int_of_nat b)
  done

let slots lines =
  let cap = ref 0 and cs = ref [] and script = ref [] in
  List.iter (fun toks ->
    let k = { t = toks } in
    match next k with
    | "slots" -> cap := int k; cs := intl k
    | "do" -> script := Do (nat_of_int (int k)) :: !script
    | "begin" -> let id = int k in script := Begin (nat_of_int id, nat_of_int (int k)) :: !script
    | "end" -> script := End (nat_of_int (int k)) :: !script
    | "chk" ->
      let tag = int k in
      (match next k with
       | "task" -> let i = int k in let a = int k in let b = int k in
         script := Chk (nat_of_int tag, (fun s -> let (x, y) = RSI.task_tag s (nat_of_int i) in int_of_nat x = a && (b < 0 || int_of_nat y = b))) :: !script
       | "tokens" -> let n = int k in script := Chk (nat_of_int tag, (fun s -> int_of_nat (RSI.tokens_of s) = n)) :: !script
       | p -> failwith ("slots chk " ^ p))
    | w -> failwith ("slots line " ^ w)) lines;
  match RS.slots_replay (nat_of_int !cap) (nl !cs) (List.rev !script) with
  | Accepted (s, sched, pend) ->
    Printf.printf "ACCEPT %d %s\n" (List.length sched) (ints (il pend)); slots_dump s
  | Rejected (n, w, s) ->
    Printf.printf "REJECT %d %s\n" (int_of_nat n) (why (int_of_nat w)); slots_dump s

(* ------------------------------------------------------------------ tasks *)
let task_dump nloc ntask s =
  Printf.printf "exited %d\n" (if RTI.exited_of s then 1 else 0);
  for x = 0 to nloc - 1 do
    Printf.printf "fin %d %s\n" x (match RTI.fin_of s (nat_of_int x) with None -> "-" | Some c -> string_of_int (int_of_nat c))
  done;
  for t = 0 to ntask - 1 do
    let (a, todo) = RTI.task_tag s (nat_of_int t) in
    Printf.printf "task %d %d %d %s\n" t (int_of_nat a) (if RTI.tdir_of s (nat_of_int t) then 1 else 0) (ints (il todo))
  done

let task_act k =
  let n k = nat_of_int (int k) in
  match next k with
  | "start" -> RTI.a_start (n k)
  | "chktemp" -> RTI.a_chktemp (n k)
  | "chkout" -> RTI.a_chkout (n k)
  | "mktemp" -> RTI.a_mktemp (n k)
  | "write" -> let t = n k in let x = n k in let c = n k in RTI.a_write t x c
  | "cmdok" -> let t = n k in RTI.a_cmdok t (nl (intl k))
  | "cmdfail" -> RTI.a_cmdfail (n k)
  | "ensure" -> let t = n k in RTI.a_ensure t (nl (intl k))
  | "rename" -> RTI.a_rename (n k)
  | "endren" -> RTI.a_endren (n k)
  | "rmtemp" -> RTI.a_rmtemp (n k)
  | w -> failwith ("task action " ^ w)

let tasks lines =
  let rows = ref [] and f0 = Hashtbl.create 16 and left = Hashtbl.create 16 and script = ref [] and nloc = ref 0 in
  let opt i = if i < 0 then None else Some (nat_of_int i) in
  List.iter (fun toks ->
    let k = { t = toks } in
    match next k with
    | "nloc" -> nloc := int k
    | "row" ->
      let i = intl k in let o = intl k in let e = intl k in
      let oc = (match next k with "fail" -> None | _ -> Some (nl (intl k))) in
      rows := (((nl i, nl o), List.map opt e), oc) :: !rows
    | "f0" -> let x = int k in let c = int k in Hashtbl.replace f0 x c
    | "left" -> Hashtbl.replace left (int k) true
    | "do" -> script := Do (task_act k) :: !script
    | "begin" -> let id = int k in script := Begin (nat_of_int id, task_act k) :: !script
    | "end" -> script := End (nat_of_int (int k)) :: !script
    | "chk" ->
      let tag = int k in
      (match next k with
       | "pc" -> let t = int k in let a = int k in
         script := Chk (nat_of_int tag, (fun s -> int_of_nat (fst (RTI.task_tag s (nat_of_int t))) = a)) :: !script
       | "fin" -> let x = int k in let c = int k in
         script := Chk (nat_of_int tag, (fun s -> match RTI.fin_of s (nat_of_int x) with None -> c < 0 | Some v -> int_of_nat v = c)) :: !script
       | p -> failwith ("task chk " ^ p))
    | w -> failwith ("task line " ^ w)) lines;
  let rows = List.rev !rows in
  let ok = RT.rows_ok rows in
  Printf.printf "TABLE %s\n" (if ok then "well-formed" else "NOT-well-formed");
  let c = RT.table_cfg rows in
  let f0f x = match Hashtbl.find_opt f0 (int_of_nat x) with Some c -> Some (nat_of_int c) | None -> None in
  let leftf t = Hashtbl.mem left (int_of_nat t) in
  match RT.task_replay c f0f leftf (List.rev !script) with
  | Accepted (s, sched, pend) ->
    Printf.printf "ACCEPT %d %s\n" (List.length sched) (ints (il pend)); task_dump !nloc (List.length rows) s
  | Rejected (n, w, s) ->
    Printf.printf "REJECT %d %s\n" (int_of_nat n) (why (int_of_nat w)); task_dump !nloc (List.length rows) s

(* ------------------------------------------------------------------ network *)
let net_dump nn ne x =
  for v = 0 to nn - 1 do
    let ((cn, en), fl) = RNI.counts x (nat_of_int v) in
    let (ct, (todo, saw)) = RNI.ct_tag x (nat_of_int v) in
    let (rn, stodo) = RNI.rn_tag x (nat_of_int v) in
    Printf.printf "node %d cN %d eN %d fl %s ct %d %s %d rn %d %s\n" v (int_of_nat cn) (int_of_nat en)
      (String.concat "" (List.map (fun b -> if b then "1" else "0") fl)) (int_of_nat ct) (String.concat "," (List.map string_of_int (il todo)))
      (if saw then 1 else 0) (int_of_nat rn) (String.concat "," (List.map string_of_int (il stodo)));
    Printf.printf "crt %d %s\n" v (String.concat " | " (List.map (fun t -> ints (il t)) (RNI.crt_of x (nat_of_int v))))
  done;
  for e = 0 to ne - 1 do
    let ((s, r), c) = RNI.edge_of x (nat_of_int e) in
    Printf.printf "edge %d snt %d rcv %d clo %d hist %s\n" e (int_of_nat s) (int_of_nat r) (if c then 1 else 0) (ints (il (RNI.hist_of x (nat_of_int e))))
  done

let net_act k =
  let n k = nat_of_int (int k) in
  match next k with
  | "round" -> let v = n k in RNI.a_begin v (nl (intl k))
  | "recv" -> RNI.a_recv (n k)
  | "endround" -> RNI.a_endround (n k)
  | "hand" -> RNI.a_hand (n k)
  | "exit" -> let v = n k in RNI.a_exit v (n k)
  | "pop" -> let v = n k in RNI.a_pop v (nl (intl k))
  | "send" -> RNI.a_send (n k)
  | "endsend" -> RNI.a_endsend (n k)
  | "fin" -> RNI.a_fin (n k)
  | w -> failwith ("net action " ^ w)

let net lines =
  let nn = ref 0 and cap = ref 1 and edges = ref [] and srcs = Hashtbl.create 8 and outf = Hashtbl.create 64 and script = ref [] in
  List.iter (fun toks ->
    let k = { t = toks } in
    match next k with
    | "net" -> nn := int k; cap := int k
    | "edge" -> let s = int k in let d = int k in let p = int k in edges := (s, d, p = 1) :: !edges
    | "src" -> let v = int k in Hashtbl.replace srcs v (intl k)
    | "of" -> let v = int k in let e = int k in let tup = intl k in let it = int k in Hashtbl.replace outf (v, e, tup) it
    | "do" -> script := Do (net_act k) :: !script
    | "begin" -> let id = int k in script := Begin (nat_of_int id, net_act k) :: !script
    | "end" -> script := End (nat_of_int (int k)) :: !script
    | "chk" ->
      let tag = int k in
      (match next k with
       | "cur" -> let v = int k in let y = int k in let it = int k in
         script := Chk (nat_of_int tag, (fun x -> List.exists (fun (a, b) -> int_of_nat a = y && int_of_nat b = it) (RNI.cur_of x (nat_of_int v)))) :: !script
       | "saw" -> let v = int k in
         script := Chk (nat_of_int tag, (fun x -> match RNI.ct_tag x (nat_of_int v) with (a, (_, saw)) -> (int_of_nat a = 1 && saw) || int_of_nat a = 3)) :: !script
       | "ct" -> let v = int k in let a = int k in
         script := Chk (nat_of_int tag, (fun x -> int_of_nat (fst (RNI.ct_tag x (nat_of_int v))) = a)) :: !script
       | p -> failwith ("net chk " ^ p))
    | w -> failwith ("net line " ^ w)) lines;
  let edges = List.rev !edges in
  let earr = Array.of_list edges in
  let c = RNI.mk_cfg (nat_of_int !nn) (List.map (fun (s, d, _) -> (nat_of_int s, nat_of_int d)) edges)
      (fun v -> match Hashtbl.find_opt srcs (int_of_nat v) with Some l -> Some (nat_of_int (List.length l)) | None -> None)
      (nat_of_int !cap)
      (fun e -> let i = int_of_nat e in i < Array.length earr && (let (_, _, p) = earr.(i) in p)) in
  let missing = ref [] in
  let gc = RNI.mk_gcfg
      (fun v -> match Hashtbl.find_opt srcs (int_of_nat v) with Some l -> nl l | None -> [])
      (fun v e tup -> match Hashtbl.find_opt outf (int_of_nat v, int_of_nat e, il tup) with
         | Some it -> nat_of_int it
         | None -> missing := (int_of_nat v, int_of_nat e, il tup) :: !missing; nat_of_int 65535) in
  let res = RN.net_replay c gc (List.rev !script) in
  List.iter (fun (v, e, tup) -> Printf.printf "UNPREDICTED-TASK node %d edge %d inputs %s\n" v e (ints tup)) (List.sort_uniq compare !missing);
  match res with
  | Accepted (x, sched, pend) ->
    Printf.printf "ACCEPT %d %s\n" (List.length sched) (ints (il pend)); net_dump !nn (List.length edges) x
  | Rejected (n, w, x) ->
    Printf.printf "REJECT %d %s\n" (int_of_nat n) (why (int_of_nat w)); net_dump !nn (List.length edges) x

(* ------------------------------------------------------------------ one in-port with several upstreams *)
let port lines =
  let ns = ref 0 and cap = ref 1 and plans = Hashtbl.create 8 and script = ref [] in
  let act k =
    let n k = nat_of_int (int k) in
    match next k with
    | "send" -> RPI.a_send (n k)
    | "close" -> RPI.a_close (n k)
    | "recv" -> RPI.a_recv (n k)
    | "seeclosed" -> RPI.a_seeclosed
    | w -> failwith ("port action " ^ w) in
  List.iter (fun toks ->
    let k = { t = toks } in
    match next k with
    | "port" -> ns := int k; cap := int k
    | "plan" -> let r = int k in Hashtbl.replace plans r (intl k)
    | "do" -> script := Do (act k) :: !script
    | "begin" -> let id = int k in script := Begin (nat_of_int id, act k) :: !script
    | "end" -> script := End (nat_of_int (int k)) :: !script
    | "chk" ->
      let tag = int k in
      (match next k with
       | "last" -> let r = int k in let it = int k in
         script := Chk (nat_of_int tag, (fun s -> match List.rev (RPI.hist_of s) with (a, b) :: _ -> int_of_nat a = r && int_of_nat b = it | [] -> false)) :: !script
       | p -> failwith ("port chk " ^ p))
    | w -> failwith ("port line " ^ w)) lines;
  let c = RPI.mk_cfg (nat_of_int !ns) (fun r -> match Hashtbl.find_opt plans (int_of_nat r) with Some l -> nl l | None -> []) (nat_of_int !cap) in
  let dump s =
    let (cl, se) = RPI.flags s in
    Printf.printf "closed %d seen %d\n" (if cl then 1 else 0) (if se then 1 else 0);
    for r = 0 to !ns - 1 do
      let ((a, b), o) = RPI.counts s (nat_of_int r) in
      Printf.printf "sender %d sent %d rcv %d open %d\n" r (int_of_nat a) (int_of_nat b) (if o then 1 else 0)
    done;
    Printf.printf "hist %s\n" (String.concat " " (List.map (fun (a, b) -> Printf.sprintf "%d:%d" (int_of_nat a) (int_of_nat b)) (RPI.hist_of s))) in
  match RP.port_replay c (List.rev !script) with
  | Accepted (s, sched, pend) -> Printf.printf "ACCEPT %d %s\n" (List.length sched) (ints (il pend)); dump s
  | Rejected (n, w, s) -> Printf.printf "REJECT %d %s\n" (int_of_nat n) (why (int_of_nat w)); dump s

let () =
  let lines = read_lines () in
  match Sys.argv.(1) with
  | "slots" -> slots lines
  | "tasks" -> tasks lines
  | "net" -> net lines
  | "port" -> port lines
  | s -> failwith ("unknown system " ^ s)
