(* driver: evaluates the extracted Coq model on hex-token input lines (same protocol as harness/cmd/t2) *)
open Model
let bit c i = (Char.code c lsr i) land 1 = 1
let asc c = Ascii (bit c 0, bit c 1, bit c 2, bit c 3, bit c 4, bit c 5, bit c 6, bit c 7)
let to_l s = List.init (String.length s) (fun i -> asc s.[i])
let of_asc (Ascii (b0,b1,b2,b3,b4,b5,b6,b7)) =
  let v b i = if b then 1 lsl i else 0 in
  Char.chr (v b0 0 + v b1 1 + v b2 2 + v b3 3 + v b4 4 + v b5 5 + v b6 6 + v b7 7)
let of_l l = let b = Buffer.create 64 in List.iter (fun a -> Buffer.add_char b (of_asc a)) l; Buffer.contents b
let unhex s = if s = "-" then "" else String.init (String.length s / 2) (fun i -> Char.chr (int_of_string ("0x" ^ String.sub s (2*i) 2)))
let hex s = if s = "" then "-" else String.concat "" (List.init (String.length s) (fun i -> Printf.sprintf "%02x" (Char.code s.[i])))
let hexl l = hex (of_l l)
let rec nat_of_int i = if i <= 0 then O else S (nat_of_int (i-1))
let rec int_of_nat = function O -> 0 | S n -> 1 + int_of_nat n

type tk = { mutable t : Stdlib.String.t list }
let next k = match k.t with x :: r -> k.t <- r; x | [] -> failwith "eol"
let more k = k.t <> []
let str k = to_l (unhex (next k))
let int k = int_of_string (next k)
let pairs k = let n = int k in List.init n (fun _ -> let a = str k in let b = str k in (a, b))
let strs k = let n = int k in List.init n (fun _ -> str k)

let eval_line sub k =
  match sub with
  | "tempdir" | "preimage" ->
    let name = str k in
    let ins = pairs k in
    let nsub = int k in
    let subs = List.init nsub (fun _ -> let port = str k in let carrier = str k in let ms = strs k in (port, carrier, ms)) in
    let params = pairs k in
    let tags = pairs k in
    let id = { iname = name; iins = ins @ List.map (fun (p, c, _) -> (p, c)) subs;
               isubs = List.map (fun (p, _, ms) -> (p, ms)) subs; iparams = params; itags = tags } in
    if sub = "preimage" then hexl (hashed id.iname (preimage id)) else hexl (task_tempdir id)
  | "format" ->
    let cmd = str k in
    let ins = pairs k in
    let nsub = int k in
    let subs = List.init nsub (fun _ -> let p = str k in let ms = strs k in (p, ms)) in
    let ins = ins @ List.map (fun (p, _) -> (p, to_l "carrier.txt")) subs in
    let outs = pairs k in let pars = pairs k in let tags = pairs k in
    let prepend = if more k then str k else [] in
    let e = { e_in = ins; e_sub = subs; e_out = outs; e_par = pars; e_tag = tags } in
    if not (pattern_ok cmd) then "<FAIL>" else
    (match format_command cmd e with
     | Ok s -> hexl (if prepend = [] then s else prepend @ (to_l " ") @ s)
     | Fail -> "<FAIL>")
  | "pathfmt" ->
    let _pat = str k in let _oport = str k in let ppat = str k in
    let ins = pairs k in let pars = pairs k in let tags = pairs k in
    (match expand ppat ins pars tags with Ok r -> hexl r | Fail -> "<FAIL>")
  | "defpath" ->
    let name = str k in let pat = str k in
    let ins = pairs k in let pars = pairs k in let tags = pairs k in
    let infos = port_infos pat in
    let ports = List.sort compare (List.filter_map (fun (n, pi) -> let ty = of_l pi.ptype in if ty = "o" || ty = "os" then Some (of_l n) else None) infos) in
    string_of_int (List.length ports) ^ " " ^ String.concat " " (List.concat_map (fun o -> [hex o; hexl (default_path name pat (to_l o) ins pars tags)]) ports)
  | "mods" ->
    let path = str k in let mods = strs k in hexl (apply_mods path mods)
  | "ports" ->
    let pat = str k in
    if not (pattern_ok pat) then "<FAIL>" else
    let infos = port_infos pat in
    let sel f = List.sort compare (List.filter_map (fun (n, pi) -> if f (of_l pi.ptype) then Some (of_l n) else None) infos) in
    let show tag l = tag ^ " " ^ string_of_int (List.length l) ^ String.concat "" (List.map (fun n -> " " ^ hex n) l) in
    String.concat " " [show "I" (sel (fun t -> t = "i")); show "O" (sel (fun t -> t = "o" || t = "os")); show "P" (sel (fun t -> t = "p"))]
  | "paths" ->
    let path = str k in
    if not (path_valid path) then "INVALID" else
    let tp = temp_path path in
    let pcs = split_all path in
    String.concat " " (["OK"; hexl tp; hexl (Model.dir tp); hexl (path @ to_l ".fifo"); hexl (Model.replace_all (to_l "__parent__") (to_l "../") path); string_of_int (List.length pcs)] @ List.map hexl pcs)
  | "sanitize" -> hexl (sanitize (str k))
  | "combine" | "combinefiles" ->
    let nk = int k in
    let cols = List.init nk (fun _ -> let key = str k in let vals = strs k in (key, vals)) in
    let outs = comb (List.map snd cols) in
    String.concat " " (List.mapi (fun i (key, _) ->
      let col = (try List.nth outs i with _ -> []) in
      String.concat " " ([hexl key; string_of_int (List.length col)] @ List.map hexl col)) cols)
  | "split" ->
    let n = int k in
    let content = List.map (fun a -> nat_of_int (Char.code (of_asc a))) (str k) in
    let parts = split_bytes (nat_of_int n) content in
    String.concat " " (string_of_int (List.length parts) :: List.map (fun p -> hex (String.init (List.length p) (fun i -> Char.chr (int_of_nat (List.nth p i))))) parts)
  | "lines" ->
    let content = List.map (fun a -> nat_of_int (Char.code (of_asc a))) (str k) in
    let ls = lines_of content in
    String.concat " " (string_of_int (List.length ls) :: List.map (fun p -> hex (String.init (List.length p) (fun i -> Char.chr (int_of_nat (List.nth p i))))) ls)
  | "select" ->
    let key = str k in
    let nrows = int k in
    let rows = List.init nrows (fun _ -> strs k) in
    let out = selector (fun p -> not (contains key p)) rows in
    String.concat " " (string_of_int (List.length out) :: List.map (fun r -> String.concat " " (string_of_int (List.length r) :: List.map hexl r)) out)
  | "concat" ->
    let cs = List.map (fun c -> List.map (fun a -> nat_of_int (Char.code (of_asc a))) c) (strs k) in
    let o = concat_out cs in
    hex (String.init (List.length o) (fun i -> Char.chr (int_of_nat (List.nth o i))))
  | "report" ->
    (* preorder tree: id start nchildren children... ; answer: ids in report order *)
    let rec tree () = let i = int k in let st = int k in let n = int k in
      let ups = List.init n (fun _ -> tree ()) in Rec (nat_of_int i, nat_of_int st, O, ups) in
    let r = tree () in
    String.concat " " (List.map (fun x -> string_of_int (int_of_nat (rid x))) (report r))
  | "json" ->
    let rec prs () =
      let id = str k in let proc = str k in let cmd = str k in
      let params = pairs k in let tags = pairs k in
      let st = str k in let fi = str k in
      let neg = int k = 1 in let ex = nat_of_int (int k) in
      let outs = pairs k in
      let nup = int k in
      let ups = List.init nup (fun _ -> let p = str k in let r = prs () in (p, r)) in
      JRec (id, proc, cmd, params, tags, st, fi, neg, ex, outs, ups) in
    let r = prs () in
    let bytes = jrender O r in
    hexl bytes ^ (match decode bytes with Some r' when r' = r -> " RT" | Some _ -> " DIFF" | None -> " UNMARSHAL-ERROR")
  | _ -> failwith ("unknown subcommand " ^ sub)


(* whole-workflow model (WfModel.eval): spec on stdin, task list and final file map on stdout *)
let wfeval () =
  let nodes = ref [] and files = ref [] and targets = ref [] in
  let opt_str k = let t = next k in if t = "~" then None else Some (to_l (unhex t)) in
  (try while true do
    let k = { t = List.filter (fun t -> t <> "") (String.split_on_char ' ' (input_line stdin)) } in
    if more k then
    (match next k with
     | "SRC" -> let name = str k in let l = ref [] in while more k do l := str k :: !l done; nodes := NSrc (name, List.rev !l) :: !nodes
     | "PSRC" -> let name = str k in let l = ref [] in while more k do l := str k :: !l done; nodes := NPSrc (name, List.rev !l) :: !nodes
     | "S2S" -> let name = str k in let u = nat_of_int (int k) in let up = str k in nodes := NS2S (name, u, up) :: !nodes
     | "COMP" ->
       let kind = next k in let name = str k in
       if kind = "maptags" then (let key = str k in let u = nat_of_int (int k) in let up = str k in nodes := NMapTags (name, u, up, key) :: !nodes)
       else nodes := NSrc (name, []) :: !nodes
     | "REC" | "PREC" -> let name = str k in nodes := NSrc (name, []) :: !nodes
     | "PROC" ->
       let name = str k in
       let _cores = int k in
       let kind = (match next k with "write" -> KWrite | "cat" -> KCat | _ -> KCatTok) in
       let tok = str k in
       let fk = (match next k with "none" -> FNone | "before" -> FBefore | "partial" -> FPartial | "afterfull" -> FAfterFull | "omit" -> FOmit | _ -> FSignal) in
       let fkey = str k in
       let pattern = str k in
       let nin = int k in
       let ins = List.init nin (fun _ -> let p = str k in let nu = int k in
                   let ups = List.init nu (fun _ -> let u = nat_of_int (int k) in let up = str k in (u, up)) in
                   { ip_name = p; ip_ups = ups }) in
       let npar = int k in
       let pars = List.init npar (fun _ -> let p = str k in
                   match next k with
                   | "U" -> (p, PUp (nat_of_int (int k)))
                   | "N" -> (p, PNone)
                   | _ -> let n = int k in (p, PVals (List.init n (fun _ -> str k)))) in
       let nout = int k in
       let outs = List.init nout (fun _ -> let p = str k in let pat = opt_str k in { op_name = p; op_pat = pat }) in
       let nextra = int k in
       let extra = List.init nextra (fun _ -> str k) in
       nodes := NProc { p_name = name; p_kind = kind; p_tok = tok; p_fail = fk; p_failkey = fkey; p_pattern = pattern;
                        p_ins = ins; p_pars = pars; p_outs = outs; p_extra = extra } :: !nodes
     | "RUNTO" -> let _mode = next k in while more k do targets := nat_of_int (int k) :: !targets done
     | "FILE" -> let p = str k in let c = str k in files := (p, c) :: !files
     | _ -> ())
  done with End_of_file -> ());
  match eval (List.rev !nodes) (List.rev !targets) (List.rev !files) with
  | WNotReady -> print_endline "STATUS notready"
  | WDone (tasks, fs, failed, aud) ->
    Printf.printf "STATUS done %d\n" (if failed then 1 else 0);
    List.iter (fun t ->
      let b = Buffer.create 256 in
      let add s = Buffer.add_string b s; Buffer.add_char b ' ' in
      add "TASK"; add (hexl t.tr_proc);
      add (match t.tr_status with TRun -> "run" | TSkip -> "skip" | TFail -> "fail" | TInvalid -> "invalid");
      add (string_of_int (List.length t.tr_ins));
      List.iter (fun (p, it) -> add (hexl p);
        (match it with
         | IPath q -> add "P"; add "1"; add (hexl q)
         | ISub ms -> add "S"; add (string_of_int (List.length ms)); List.iter (fun m -> add (hexl m)) ms)) t.tr_ins;
      add (string_of_int (List.length t.tr_pars));
      List.iter (fun (p, v) -> add (hexl p); add (hexl v)) t.tr_pars;
      add (string_of_int (List.length t.tr_outs));
      List.iter (fun (p, (st, q)) -> add (hexl p); add (if st then "1" else "0"); add (hexl q)) t.tr_outs;
      add (hexl t.tr_content);
      add (match t.tr_command with Ok c -> hexl c | Fail -> "<FAIL>");
      add (if t.tr_emitted then "1" else "0");
      print_endline (Buffer.contents b)) tasks;
    let l = List.sort compare (List.map (fun (p, c) -> (of_l p, of_l c)) fs) in
    List.iter (fun (p, c) -> Printf.printf "FILE %s %s\n" (hex p) (hex c)) l;
    let rec ser (ARec (proc, cmd, params, tags, outs, up)) =
      let kv l = string_of_int (List.length l) :: List.concat_map (fun (a, b) -> [hexl a; hexl b]) (List.sort compare l) in
      String.concat " " ([hexl proc; hexl cmd] @ kv params @ kv tags @ kv outs
                         @ [string_of_int (List.length up)] @ List.concat_map (fun (p, r) -> [hexl p; ser r]) (List.sort (fun (a, _) (b, _) -> compare a b) up)) in
    List.iter (fun (p, r) -> Printf.printf "AUDIT %s %s\n" (hexl p) (ser r)) aud

let () =
  let sub = Sys.argv.(1) in
  if sub = "wfeval" then wfeval ()
  else
  try while true do
    let line = input_line stdin in
    let k = { t = List.filter (fun t -> t <> "") (String.split_on_char ' ' line) } in
    print_endline (try eval_line sub k with Failure m -> "<ERR " ^ m ^ ">")
  done with End_of_file -> ()
