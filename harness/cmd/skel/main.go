// skel: tie T1.  Reads the Go sources of scipipe and prints coq/theories/Gen.v:
//   * constants and tables the models depend on (regexps, place-holder strings, thresholds),
//   * control-flow skeletons of the functions whose ordering the transition systems build in.
//
// Purely syntactic (go/parser + go/ast, standard library only).  Dropped: logging calls,
// verifPoint hooks, declarations, pure assignments (no call, no channel operation).
// Anything effectful that is not recognised is kept as SUnknown "<source>".
package main

import (
	"bytes"
	"fmt"
	"go/ast"
	"go/parser"
	"go/printer"
	"go/token"
	"os"
	"path/filepath"
	"sort"
	"strings"
)

var fset = token.NewFileSet()

func src(n ast.Node) string {
	var b bytes.Buffer
	printer.Fprint(&b, fset, n)
	return strings.Join(strings.Fields(b.String()), " ")
}

// calls that are logging or instrumentation and carry no semantics for the models
func isLog(call *ast.CallExpr) bool {
	s := src(call.Fun)
	for _, p := range []string{"Debug.", "Info.", "Audit.", "Warning.", "Error.Print", "verifPoint"} {
		if strings.HasPrefix(s, p) {
			return true
		}
	}
	for _, p := range []string{".Auditf", ".Audit"} {
		if strings.HasSuffix(s, p) {
			return true
		}
	}
	return false
}

// calls without side effects on the modelled state: results only feed later statements
var pure = map[string]bool{"time.Now": true, "append": true, "make": true, "len": true, "cap": true, "fmt.Sprintf": true,
	"errors.New": true, "strings.Replace": true, "strings.ReplaceAll": true, "strings.Join": true, "strings.Split": true,
	"filepath.Dir": true, "filepath.Base": true, "filepath.Join": true, "string": true, "NewAuditInfo": true, "finishTime.Sub": true,
	"sort.Strings": true, "regexp.MustCompile": true}

// local variables whose updates are part of the control flow the models rely on
var tracked = map[string]bool{"startedTasks": true, "nextTask": true, "tasks": true, "anyFileExists": true, "isReady": true,
	"inPortsOpen": true, "paramPortsOpen": true, "foundNewDriverProc": true, "exists": true}

func retSrc(x *ast.ReturnStmt) string {
	rs := []string{}
	for _, r := range x.Results {
		if c, ok := r.(*ast.CallExpr); ok && src(c.Fun) == "errors.New" {
			rs = append(rs, "<error>")
			continue
		}
		rs = append(rs, src(r))
	}
	return strings.Join(rs, ", ")
}

func q(s string) string { return "\"" + strings.ReplaceAll(s, "\"", "\"\"") + "\"" }

func stmts(l []ast.Stmt) string {
	out := []string{}
	for _, s := range l {
		if r := stmt(s); r != "" {
			out = append(out, r)
		}
	}
	return "[" + strings.Join(out, "; ") + "]"
}

func callStmt(e *ast.CallExpr) string {
	if isLog(e) {
		return ""
	}
	f := src(e.Fun)
	if pure[f] {
		return ""
	}
	if strings.HasSuffix(f, ".Lock") {
		return "SLock " + q(strings.TrimSuffix(f, ".Lock"))
	}
	if strings.HasSuffix(f, ".Unlock") {
		return "SUnlock " + q(strings.TrimSuffix(f, ".Unlock"))
	}
	if strings.HasSuffix(f, "Failf") || strings.HasSuffix(f, ".Fail") || f == "Fail" || f == "os.Exit" {
		return "SFail"
	}
	if f == "close" {
		return "SClose " + q(src(e.Args[0]))
	}
	if f == "delete" {
		return "SDelete " + q(src(e.Args[0]))
	}
	if fl, ok := e.Fun.(*ast.FuncLit); ok {
		return "SBlock " + stmts(fl.Body.List)
	}
	for i, a := range e.Args {
		if fl, ok := a.(*ast.FuncLit); ok {
			return "SBlock [SCall " + q(f) + "; SFunc " + q("arg"+fmt.Sprint(i)) + " " + stmts(fl.Body.List) + "]"
		}
	}
	// keep the arguments of the calls whose arguments matter to the models
	switch f {
	case "os.Rename", "os.RemoveAll", "os.Remove", "os.MkdirAll", "ioutil.WriteFile", "FinalizePaths", "CheckWithMsg", "Check":
		as := []string{}
		for _, a := range e.Args {
			as = append(as, src(a))
		}
		return "SCall " + q(f+"("+strings.Join(as, ", ")+")")
	}
	return "SCall " + q(f)
}

func stmt(s ast.Stmt) string {
	switch x := s.(type) {
	case *ast.ExprStmt:
		switch e := x.X.(type) {
		case *ast.CallExpr:
			return callStmt(e)
		case *ast.UnaryExpr:
			if e.Op == token.ARROW {
				return "SRecv " + q(src(e.X))
			}
		}
		return "SUnknown " + q(src(x))
	case *ast.SendStmt:
		return "SSend " + q(src(x.Chan))
	case *ast.DeferStmt:
		r := callStmt(x.Call)
		if r == "" {
			return ""
		}
		return "SDefer (" + r + ")"
	case *ast.GoStmt:
		r := callStmt(x.Call)
		if r == "" {
			return ""
		}
		return "SGo (" + r + ")"
	case *ast.ReturnStmt:
		for _, r := range x.Results {
			if c, ok := r.(*ast.CallExpr); ok && !isLog(c) && !pure[src(c.Fun)] {
				return "SBlock [" + callStmt(c) + "; SReturn " + q(retSrc(x)) + "]"
			}
		}
		return "SReturn " + q(retSrc(x))
	case *ast.IfStmt:
		pre := ""
		if x.Init != nil {
			pre = stmt(x.Init)
		}
		els := "[]"
		if x.Else != nil {
			if b, ok := x.Else.(*ast.BlockStmt); ok {
				els = stmts(b.List)
			} else {
				els = "[" + stmt(x.Else) + "]"
			}
		}
		r := "SIf " + q(src(x.Cond)) + " " + stmts(x.Body.List) + " " + els
		if pre != "" {
			return "SBlock [" + pre + "; " + r + "]"
		}
		return r
	case *ast.ForStmt:
		if x.Cond != nil {
			return "SFor " + q(src(x.Cond)) + " " + stmts(x.Body.List)
		}
		return "SLoop " + stmts(x.Body.List)
	case *ast.RangeStmt:
		if u, ok := x.X.(*ast.UnaryExpr); ok && u.Op == token.ARROW {
			return "SRangeCh " + q(src(u.X)) + " " + stmts(x.Body.List)
		}
		return "SRange " + q(src(x.X)) + " " + stmts(x.Body.List)
	case *ast.AssignStmt:
		// keep assignments whose right-hand side has an effect (call, receive), drop pure ones;
		// assignments to fields of shared objects are kept as SAssign
		for i, r := range x.Rhs {
			if fl, ok := r.(*ast.FuncLit); ok && i < len(x.Lhs) {
				return "SFunc " + q(src(x.Lhs[i])) + " " + stmts(fl.Body.List)
			}
		}
		for _, l := range x.Lhs {
			if id, ok := l.(*ast.Ident); ok && tracked[id.Name] {
				return "SAssign " + q(src(x))
			}
		}
		for _, r := range x.Rhs {
			if c, ok := r.(*ast.CallExpr); ok {
				if isLog(c) || pure[src(c.Fun)] {
					continue
				}
				return callStmt(c)
			}
			if u, ok := r.(*ast.UnaryExpr); ok && u.Op == token.ARROW {
				return "SRecv " + q(src(u.X))
			}
		}
		for _, l := range x.Lhs {
			switch l.(type) {
			case *ast.SelectorExpr, *ast.IndexExpr:
				return "SAssign " + q(src(l))
			}
		}
		// reads of a field-held map (x.f[k]) are kept: they matter for the lock discipline
		for _, r := range x.Rhs {
			if ix, ok := r.(*ast.IndexExpr); ok {
				if _, ok := ix.X.(*ast.SelectorExpr); ok {
					return "SRead " + q(src(ix))
				}
			}
		}
		return ""
	case *ast.SelectStmt:
		cs := []string{}
		for _, c := range x.Body.List {
			cc := c.(*ast.CommClause)
			head := "SBranch \"default\""
			if cc.Comm != nil {
				head = stmt(cc.Comm)
				if head == "" {
					head = "SUnknown " + q(src(cc.Comm))
				}
			}
			cs = append(cs, "("+head+", "+stmts(cc.Body)+")")
		}
		return "SSelect [" + strings.Join(cs, "; ") + "]"
	case *ast.SwitchStmt:
		cs := []string{}
		for _, c := range x.Body.List {
			cc := c.(*ast.CaseClause)
			labels := []string{}
			for _, e := range cc.List {
				labels = append(labels, src(e))
			}
			cs = append(cs, "("+q(strings.Join(labels, ","))+", "+stmts(cc.Body)+")")
		}
		tag := ""
		if x.Tag != nil {
			tag = src(x.Tag)
		}
		return "SSwitch " + q(tag) + " [" + strings.Join(cs, "; ") + "]"
	case *ast.DeclStmt, *ast.IncDecStmt, *ast.EmptyStmt:
		return ""
	case *ast.BlockStmt:
		return "SBlock " + stmts(x.List)
	case *ast.BranchStmt:
		return "SBranch " + q(x.Tok.String())
	}
	return "SUnknown " + q(src(s))
}

// functions whose skeleton is emitted (receiver type . name)
var want = []string{
	"Task.Execute", "FinalizePaths", "Task.finalizePaths", "Task.anyOutputsExist", "Task.tempDirsExist",
	"Task.ensureAllOutputsExist", "Task.createDirs", "Task.executeCommand", "Task.writeAuditLogs", "Task.drainStreamingInputs",
	"Workflow.IncConcurrentTasks", "Workflow.DecConcurrentTasks",
	"Process.Run", "Process.createTasks", "BaseProcess.receiveOnInPorts", "BaseProcess.receiveOnInParamPorts",
	"BaseProcess.CloseOutPorts", "BaseProcess.Ready", "taskQueue.NextTaskDone",
	"InPort.Send", "InPort.CloseConnection", "InParamPort.Send", "InParamPort.CloseConnection",
	"OutPort.Send", "OutPort.Close", "OutParamPort.Send", "OutParamPort.Close", "InParamPort.FromStr",
	"InParamPort.AddRemotePort", "InParamPort.connectedOutParamPorts",
	"InPort.From", "OutPort.To", "OutPort.Disconnect", "InPort.Disconnect",
	"Workflow.Run", "Workflow.RunToProcs", "Workflow.runProcs", "Workflow.readyToRun", "Workflow.reconnectDeadEndConnections",
	"upstreamProcsForProc", "collectUpstreamProcs", "Sink.Run", "Fail", "Failf", "CheckWithMsg",
	"FileIP.Write", "FileIP.AddTag", "FileIP.AuditInfo", "FileIP.SetAuditInfo", "FileIP.WriteAuditLogToFile", "FileIP.CreateFifo",
	"NewTask", "NewFileIP",
	"FileIP.Tags", "FileIP.Tag", "FileIP.AddTags", "FileIP.auditInfoSnapshot", "FileIP.Exists", "FileIP.FifoFileExists", "UnmarshalAuditInfoJSONFile",
	"components.MapToTags.Run", "components.StreamToSubStream.Run", "components.FileCombinator.Run", "components.ParamCombinator.Run",
	"components.IPSelectorSync.Run", "components.Concatenator.Run", "components.FileSplitter.Run", "components.FileSource.Run", "components.ParamSource.Run",
}

func ident(name string) string {
	return "skel_" + strings.NewReplacer(".", "_").Replace(name)
}

func main() {
	root := os.Args[1]
	pkgs, err := parser.ParseDir(fset, root, func(fi os.FileInfo) bool {
		n := fi.Name()
		return !strings.HasSuffix(n, "_test.go") && n != "hooks_on.go" && n != "hooks_off.go" && n != "export_verif.go"
	}, 0)
	if err != nil {
		fmt.Fprintln(os.Stderr, err)
		os.Exit(1)
	}
	funcs := map[string]string{}
	consts := map[string]string{}
	if cp, err := parser.ParseDir(fset, filepath.Join(root, "components"), func(fi os.FileInfo) bool {
		n := fi.Name()
		return !strings.HasSuffix(n, "_test.go") && n != "export_verif.go"
	}, 0); err == nil {
		for _, pkg := range cp {
			for _, f := range pkg.Files {
				for _, d := range f.Decls {
					if x, ok := d.(*ast.FuncDecl); ok && x.Body != nil {
						name := x.Name.Name
						if x.Recv != nil && len(x.Recv.List) > 0 {
							name = strings.TrimPrefix(src(x.Recv.List[0].Type), "*") + "." + name
						}
						funcs["components."+name] = stmts(x.Body.List)
					}
				}
			}
		}
	}
	// package-level variables and the functions that assign to them (shared memory outside any struct: C12)
	globalWrites := []string{}
	collectGlobalWrites := func(prefix string, ps map[string]*ast.Package) {
		globals := map[string]bool{}
		for _, pkg := range ps {
			for _, f := range pkg.Files {
				for _, d := range f.Decls {
					if g, ok := d.(*ast.GenDecl); ok && g.Tok == token.VAR {
						for _, sp := range g.Specs {
							if vs, ok := sp.(*ast.ValueSpec); ok {
								for _, n := range vs.Names {
									globals[n.Name] = true
								}
							}
						}
					}
				}
			}
		}
		rootIdent := func(e ast.Expr) *ast.Ident {
			for {
				switch x := e.(type) {
				case *ast.Ident:
					return x
				case *ast.IndexExpr:
					e = x.X
				case *ast.SelectorExpr:
					e = x.X
				case *ast.StarExpr:
					e = x.X
				case *ast.ParenExpr:
					e = x.X
				default:
					return nil
				}
			}
		}
		for _, pkg := range ps {
			for _, f := range pkg.Files {
				for _, d := range f.Decls {
					x, ok := d.(*ast.FuncDecl)
					if !ok || x.Body == nil {
						continue
					}
					name := x.Name.Name
					if x.Recv != nil && len(x.Recv.List) > 0 {
						name = strings.TrimPrefix(src(x.Recv.List[0].Type), "*") + "." + name
					}
					// names declared locally (parameters, :=, var) shadow the package-level ones
					local := map[string]bool{}
					if x.Type.Params != nil {
						for _, fl := range x.Type.Params.List {
							for _, n := range fl.Names {
								local[n.Name] = true
							}
						}
					}
					if x.Type.Results != nil {
						for _, fl := range x.Type.Results.List {
							for _, n := range fl.Names {
								local[n.Name] = true
							}
						}
					}
					ast.Inspect(x.Body, func(n ast.Node) bool {
						switch a := n.(type) {
						case *ast.AssignStmt:
							if a.Tok == token.DEFINE {
								for _, l := range a.Lhs {
									if id, ok := l.(*ast.Ident); ok {
										local[id.Name] = true
									}
								}
							}
						case *ast.ValueSpec:
							for _, id := range a.Names {
								local[id.Name] = true
							}
						case *ast.RangeStmt:
							if a.Tok == token.DEFINE {
								for _, l := range []ast.Expr{a.Key, a.Value} {
									if id, ok := l.(*ast.Ident); ok {
										local[id.Name] = true
									}
								}
							}
						}
						return true
					})
					seen := map[string]bool{}
					note := func(e ast.Expr) {
						if id := rootIdent(e); id != nil && globals[id.Name] && !local[id.Name] && !seen[id.Name] {
							seen[id.Name] = true
							globalWrites = append(globalWrites, "("+q(prefix+name)+", "+q(id.Name)+")")
						}
					}
					ast.Inspect(x.Body, func(n ast.Node) bool {
						switch a := n.(type) {
						case *ast.AssignStmt:
							if a.Tok != token.DEFINE {
								for _, l := range a.Lhs {
									note(l)
								}
							}
						case *ast.IncDecStmt:
							note(a.X)
						}
						return true
					})
				}
			}
		}
	}
	collectGlobalWrites("", pkgs)
	if cp2, err := parser.ParseDir(fset, filepath.Join(root, "components"), func(fi os.FileInfo) bool {
		n := fi.Name()
		return !strings.HasSuffix(n, "_test.go") && n != "export_verif.go"
	}, 0); err == nil {
		collectGlobalWrites("components.", cp2)
	}
	sort.Strings(globalWrites)
	strLits := map[string][]string{} // function -> string literals passed to regexp compile calls
	for _, pkg := range pkgs {
		files := []string{}
		for fn := range pkg.Files {
			files = append(files, fn)
		}
		sort.Strings(files)
		for _, fn := range files {
			f := pkg.Files[fn]
			for _, d := range f.Decls {
				switch x := d.(type) {
				case *ast.FuncDecl:
					if x.Body == nil {
						continue
					}
					name := x.Name.Name
					if x.Recv != nil && len(x.Recv.List) > 0 {
						name = strings.TrimPrefix(src(x.Recv.List[0].Type), "*") + "." + name
					}
					funcs[name] = stmts(x.Body.List)
					// regexp sources
					ast.Inspect(x.Body, func(n ast.Node) bool {
						if c, ok := n.(*ast.CallExpr); ok {
							fname := src(c.Fun)
							if fname == "regexp.MustCompile" || fname == "regexp.Compile" || fname == "re.Compile" {
								if len(c.Args) == 1 {
									if bl, ok := c.Args[0].(*ast.BasicLit); ok {
										strLits[name] = append(strLits[name], litValue(bl))
									} else if id, ok := c.Args[0].(*ast.Ident); ok {
										strLits[name] = append(strLits[name], "$"+id.Name)
									}
								}
							}
						}
						// local string variables used as regexps: regex := "..."; expr := `...`
						if a, ok := n.(*ast.AssignStmt); ok && len(a.Lhs) == 1 && len(a.Rhs) == 1 {
							if id, ok := a.Lhs[0].(*ast.Ident); ok && (id.Name == "regex" || id.Name == "expr") {
								if bl, ok := a.Rhs[0].(*ast.BasicLit); ok {
									strLits[name] = append(strLits[name], id.Name+"="+litValue(bl))
								}
							}
						}
						return true
					})
				case *ast.GenDecl:
					for _, sp := range x.Specs {
						if vs, ok := sp.(*ast.ValueSpec); ok {
							for i, n := range vs.Names {
								if i < len(vs.Values) {
									if bl, ok := vs.Values[i].(*ast.BasicLit); ok {
										consts[n.Name] = litValue(bl)
									}
								}
							}
						}
					}
				}
			}
		}
	}
	fmt.Println("(* GENERATED by harness/cmd/skel from " + filepath.Base(root) + " -- do not edit; regenerated on every check (tie T1) *)")
	fmt.Println("From Coq Require Import List String.")
	fmt.Println("From SP Require Import Skel.")
	fmt.Println("Import ListNotations.")
	fmt.Println("Open Scope string_scope.")
	fmt.Println()
	for _, c := range []string{"parentDirPlaceHolder", "FSRootPlaceHolder", "tempDirPrefix", "BUFSIZE", "finalizePathMaxTries", "Version"} {
		v, ok := consts[c]
		if !ok {
			v = "<missing>"
		}
		fmt.Printf("Definition const_%s : string := %s.\n", c, q(v))
	}
	fmt.Println()
	for _, fn := range []string{"getShellCommandPlaceHolderRegex", "pathIsValid", "sanitizePathFragment", "applyPathModifiers", "Process.initPortsFromCmdPattern", "NewWorkflow"} {
		ls := []string{}
		for _, l := range strLits[fn] {
			ls = append(ls, q(l))
		}
		fmt.Printf("Definition regexps_%s : list string := [%s].\n", strings.ReplaceAll(fn, ".", "_"), strings.Join(ls, "; "))
	}
	fmt.Println()
	fmt.Printf("Definition global_writes : list (string * string) :=\n  [%s].\n\n", strings.Join(globalWrites, "; "))
	for _, name := range want {
		body, ok := funcs[name]
		if !ok {
			body = "[SUnknown \"<function not found>\"]"
		}
		fmt.Printf("Definition %s : list stm :=\n  %s.\n\n", ident(name), body)
	}
	// call cones (cones.go): which functions of the library each of these functions can reach
	cones, cerr := callCones(root)
	if cones != nil {
		fmt.Printf("Definition go_captures_loop_var : list (string * string) :=\n  [%s].\n\n", strings.Join(loopVarCaptures, "; "))
		all := []string{}
		for n := range cones {
			all = append(all, q(n))
		}
		sort.Strings(all)
		fmt.Printf("Definition all_functions : list string :=\n  [%s].\n\n", strings.Join(all, "; "))
		// functions above the modelled ones: not modelled themselves, but they call (directly or not) a function that is
		isWant := map[string]bool{}
		for _, w := range want {
			isWant[w] = true
		}
		entry := []string{}
		for n, c := range cones {
			if isWant[n] {
				continue
			}
			for _, m := range c {
				if isWant[m] {
					entry = append(entry, q(n))
					break
				}
			}
		}
		sort.Strings(entry)
		fmt.Printf("Definition callers_of_modelled : list string :=\n  [%s].\n\n", strings.Join(entry, "; "))
	}
	// roots of properties whose models are pure functions compared by T2 (no skeleton): cone only
	coneRoots := append(append([]string{}, want...), "Task.TempDir", "Task.formatCommand", "applyPathModifiers", "Process.initPortsFromCmdPattern", "Process.initDefaultPathFuncs")
	for _, name := range coneRoots {
		l := []string{}
		if cones == nil {
			l = append(l, q("<cone not computed: "+cerr+">"))
		} else if c, ok := cones[name]; ok {
			for _, m := range c {
				l = append(l, q(m))
			}
		} else {
			l = append(l, q("<function not found>"))
		}
		fmt.Printf("Definition cone_%s : list string :=\n  [%s].\n\n", strings.NewReplacer(".", "_").Replace(name), strings.Join(l, "; "))
	}
}

func litValue(bl *ast.BasicLit) string {
	v := bl.Value
	if bl.Kind == token.STRING {
		if strings.HasPrefix(v, "`") {
			return strings.Trim(v, "`")
		}
		// interpreted string: undo the escapes that occur in this code base
		v = v[1 : len(v)-1]
		v = strings.NewReplacer(`\\`, `\`, `\"`, `"`, `\n`, "\n", `\t`, "\t").Replace(v)
		return v
	}
	return v
}
