// cones: the static call cone of a function -- every function or method of scipipe (root package and components) that can be
// reached from it through calls or function values -- computed with go/types (standard library only; the standard library
// itself is type-checked from source).  Calls through an interface are resolved to every method of that name in the two
// packages.  Gen.v gets one `cone_<function>` list per function whose skeleton the models are about: a helper that is new to
// the cone (or a new edge to an old one) changes the list, so code the models were never compared with cannot enter the
// modelled region unnoticed (tie T1).
package main

import (
	"go/ast"
	"go/importer"
	"go/parser"
	"go/token"
	"go/types"
	"os"
	"path/filepath"
	"sort"
	"strings"
)

type rootImporter struct {
	root *types.Package
	std  types.Importer
}

func (ri rootImporter) Import(path string) (*types.Package, error) {
	if path == "github.com/scipipe/scipipe" && ri.root != nil {
		return ri.root, nil
	}
	return ri.std.Import(path)
}

func funcName(f *types.Func, comp *types.Package) string {
	name := f.Name()
	if sig, ok := f.Type().(*types.Signature); ok && sig.Recv() != nil {
		t := sig.Recv().Type()
		if p, ok := t.(*types.Pointer); ok {
			t = p.Elem()
		}
		if n, ok := t.(*types.Named); ok {
			name = n.Obj().Name() + "." + name
		}
	}
	if f.Pkg() == comp {
		name = "components." + name
	}
	return name
}

func isInterfaceMethod(f *types.Func) bool {
	if sig, ok := f.Type().(*types.Signature); ok && sig.Recv() != nil {
		_, isIface := sig.Recv().Type().Underlying().(*types.Interface)
		return isIface
	}
	return false
}

func parseFiltered(fs *token.FileSet, dir string, skip map[string]bool) []*ast.File {
	ents, err := os.ReadDir(dir)
	if err != nil {
		return nil
	}
	files := []*ast.File{}
	names := []string{}
	for _, e := range ents {
		n := e.Name()
		if e.IsDir() || !strings.HasSuffix(n, ".go") || strings.HasSuffix(n, "_test.go") || skip[n] {
			continue
		}
		names = append(names, n)
	}
	sort.Strings(names)
	for _, n := range names {
		f, err := parser.ParseFile(fs, filepath.Join(dir, n), nil, 0)
		if err == nil {
			files = append(files, f)
		}
	}
	return files
}

// callCones returns, for every function of the two packages, the sorted list of functions in its cone (itself excluded),
// or nil with an error text when the packages do not type-check
// loopVarCaptures: `go func() {...}()` literals whose body mentions a variable declared by an enclosing for / range header.  The
// module says `go 1.13`: such a variable is ONE variable for all iterations, so the goroutine reads it while the loop goes on
// assigning it -- a data race, and usually the wrong item.  (Passing the value as an argument, or `x := x`, is the idiom.)
var loopVarCaptures []string

func collectLoopVarCaptures(n string, x *ast.FuncDecl, info *types.Info) {
	type loopv struct{ from, to token.Pos }
	var walk func(nd ast.Node, loopVars map[types.Object]bool)
	walk = func(nd ast.Node, loopVars map[types.Object]bool) {
		ast.Inspect(nd, func(c ast.Node) bool {
			switch st := c.(type) {
			case *ast.RangeStmt:
				inner := map[types.Object]bool{}
				for k := range loopVars {
					inner[k] = true
				}
				if st.Tok == token.DEFINE {
					for _, e := range []ast.Expr{st.Key, st.Value} {
						if id, ok := e.(*ast.Ident); ok && id.Name != "_" {
							if o := info.Defs[id]; o != nil {
								inner[o] = true
							}
						}
					}
				}
				walk(st.Body, inner)
				return false
			case *ast.ForStmt:
				inner := map[types.Object]bool{}
				for k := range loopVars {
					inner[k] = true
				}
				if as, ok := st.Init.(*ast.AssignStmt); ok && as.Tok == token.DEFINE {
					for _, e := range as.Lhs {
						if id, ok := e.(*ast.Ident); ok {
							if o := info.Defs[id]; o != nil {
								inner[o] = true
							}
						}
					}
				}
				walk(st.Body, inner)
				return false
			case *ast.GoStmt:
				if fl, ok := st.Call.Fun.(*ast.FuncLit); ok && len(loopVars) > 0 {
					seen := map[string]bool{}
					ast.Inspect(fl.Body, func(b ast.Node) bool {
						if id, ok := b.(*ast.Ident); ok {
							if o := info.Uses[id]; o != nil && loopVars[o] && !seen[id.Name] {
								seen[id.Name] = true
								loopVarCaptures = append(loopVarCaptures, "("+q(n)+", "+q(id.Name)+")")
							}
						}
						return true
					})
				}
				return true
			}
			return true
		})
	}
	walk(x.Body, map[types.Object]bool{})
}

func callCones(root string) (map[string][]string, string) {
	fs := token.NewFileSet()
	std := importer.ForCompiler(fs, "source", nil)
	rootFiles := parseFiltered(fs, root, map[string]bool{"hooks_on.go": true, "export_verif.go": true})
	compFiles := parseFiltered(fs, filepath.Join(root, "components"), map[string]bool{"export_verif.go": true})
	info := &types.Info{Uses: map[*ast.Ident]types.Object{}, Defs: map[*ast.Ident]types.Object{}}
	errText := ""
	conf := types.Config{Importer: rootImporter{nil, std}, Error: func(err error) {
		if errText == "" {
			errText = err.Error()
		}
	}}
	rootPkg, _ := conf.Check("github.com/scipipe/scipipe", fs, rootFiles, info)
	if rootPkg == nil || errText != "" {
		return nil, "type-check of the root package: " + errText
	}
	conf2 := types.Config{Importer: rootImporter{rootPkg, std}, Error: conf.Error}
	compPkg, _ := conf2.Check("github.com/scipipe/scipipe/components", fs, compFiles, info)
	if errText != "" {
		return nil, "type-check of components: " + errText
	}
	// all concrete methods by bare name (targets of interface calls)
	byName := map[string][]string{}
	decls := map[string]*ast.FuncDecl{}
	for _, files := range [][]*ast.File{rootFiles, compFiles} {
		for _, f := range files {
			for _, d := range f.Decls {
				x, ok := d.(*ast.FuncDecl)
				if !ok || x.Body == nil {
					continue
				}
				obj, _ := info.Defs[x.Name].(*types.Func)
				if obj == nil {
					continue
				}
				n := funcName(obj, compPkg)
				decls[n] = x
				if x.Recv != nil {
					byName[x.Name.Name] = append(byName[x.Name.Name], n)
				}
			}
		}
	}
	loopVarCaptures = []string{}
	for n, x := range decls {
		collectLoopVarCaptures(n, x, info)
	}
	sort.Strings(loopVarCaptures)
	edges := map[string]map[string]bool{}
	for n, x := range decls {
		out := map[string]bool{}
		ast.Inspect(x.Body, func(nd ast.Node) bool {
			id, ok := nd.(*ast.Ident)
			if !ok {
				return true
			}
			f, ok := info.Uses[id].(*types.Func)
			if !ok || f.Pkg() == nil || (f.Pkg() != rootPkg && f.Pkg() != compPkg) {
				return true
			}
			if isInterfaceMethod(f) {
				for _, m := range byName[f.Name()] {
					out[m] = true
				}
			} else {
				out[funcName(f, compPkg)] = true
			}
			return true
		})
		edges[n] = out
	}
	cones := map[string][]string{}
	for n := range decls {
		seen := map[string]bool{}
		todo := []string{n}
		for len(todo) > 0 {
			c := todo[len(todo)-1]
			todo = todo[:len(todo)-1]
			for m := range edges[c] {
				if !seen[m] {
					seen[m] = true
					todo = append(todo, m)
				}
			}
		}
		delete(seen, n)
		l := []string{}
		for m := range seen {
			l = append(l, m)
		}
		sort.Strings(l)
		cones[n] = l
	}
	return cones, ""
}
