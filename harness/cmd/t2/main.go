// t2: evaluates real scipipe functions on hex-token input lines (correspondence tie T2).
//
// usage: t2 <subcommand>   (reads lines on stdin, prints one result line per input line)
//
// A scipipe failure is os.Exit(1) somewhere deep inside the library.  The
// supervisor therefore runs the evaluation in a child process; when the child
// dies, the line it was working on is answered with <FAIL> and a new child
// continues with the next line.
package main

import (
	"bufio"
	"encoding/hex"
	"fmt"
	"io"
	"os"
	"os/exec"
	"sort"
	"strconv"
	"strings"

	sp "github.com/scipipe/scipipe"
	"github.com/scipipe/scipipe/components"
)

func hx(s string) string {
	if s == "" {
		return "-"
	}
	return hex.EncodeToString([]byte(s))
}

func unhex(s string) string {
	if s == "-" {
		return ""
	}
	b, err := hex.DecodeString(s)
	if err != nil {
		panic("bad hex token " + s)
	}
	return string(b)
}

type toks struct {
	t []string
	i int
}

func (k *toks) next() string   { s := k.t[k.i]; k.i++; return s }
func (k *toks) str() string    { return unhex(k.next()) }
func (k *toks) int() int       { n, _ := strconv.Atoi(k.next()); return n }
func (k *toks) more() bool     { return k.i < len(k.t) }
func (k *toks) pairs() [][2]string {
	n := k.int()
	r := [][2]string{}
	for i := 0; i < n; i++ {
		a := k.str()
		b := k.str()
		r = append(r, [2]string{a, b})
	}
	return r
}
func (k *toks) strs() []string {
	n := k.int()
	r := []string{}
	for i := 0; i < n; i++ {
		r = append(r, k.str())
	}
	return r
}

var wf *sp.Workflow
var procCount int

func getWf() *sp.Workflow {
	if wf == nil {
		wf = sp.NewWorkflowCustomLogFile("t2", 4, "/dev/null")
	}
	return wf
}

func newProc(pat string) *sp.Process {
	procCount++
	return sp.NewProc(getWf(), "p"+strconv.Itoa(procCount), pat)
}

func mkIP(path string) *sp.FileIP {
	ip, err := sp.NewFileIP(path)
	if err != nil {
		fmt.Fprintln(os.Stderr, "invalid path")
		os.Exit(1)
	}
	return ip
}

// subIP makes a carrier IP whose sub-stream already holds the given members
func subIP(carrier string, members []string) *sp.FileIP {
	c := mkIP(carrier)
	port := sp.NewInPort("sub")
	go func() {
		for _, m := range members {
			port.Chan <- mkIP(m)
		}
		close(port.Chan)
	}()
	c.SubStream = port
	return c
}

func evalLine(sub string, line string) string {
	k := &toks{t: strings.Fields(line)}
	switch sub {
	case "tempdir":
		// name nIns (port path)* nSubs (port carrier m member*)* nPar (k v)* nTag (k v)*
		name := k.str()
		ins := map[string]*sp.FileIP{}
		for _, kv := range k.pairs() {
			ins[kv[0]] = mkIP(kv[1])
		}
		nsub := k.int()
		pat := "echo"
		for i := 0; i < nsub; i++ {
			port := k.str()
			carrier := k.str()
			members := k.strs()
			ins[port] = subIP(carrier, members)
			pat += " {i:" + port + "|join:,}"
		}
		params := map[string]string{}
		for _, kv := range k.pairs() {
			params[kv[0]] = kv[1]
		}
		tags := map[string]string{}
		for _, kv := range k.pairs() {
			tags[kv[0]] = kv[1]
		}
		var t *sp.Task
		if nsub == 0 {
			t = sp.NewTask(nil, nil, name, "echo foo", ins, nil, nil, params, tags, "", nil, 1)
		} else {
			p := newProc(pat)
			t = sp.NewTask(getWf(), p, name, "echo foo", ins, nil, p.PortInfo, params, tags, "", nil, 1)
		}
		return hx(t.TempDir())
	case "format":
		// pattern nIns (k v)* nSub (k m v*)* nOut (k v)* nPar (k v)* nTag (k v)* [prepend]
		pat := k.str()
		p := newProc(pat)
		inIPs := map[string]*sp.FileIP{}
		for _, kv := range k.pairs() {
			inIPs[kv[0]] = mkIP(kv[1])
		}
		nsub := k.int()
		for i := 0; i < nsub; i++ {
			port := k.str()
			members := k.strs()
			inIPs[port] = subIP("carrier.txt", members)
		}
		pathFuncs := map[string]func(*sp.Task) string{}
		for _, kv := range k.pairs() {
			v := kv[1]
			pathFuncs[kv[0]] = func(t *sp.Task) string { return v }
		}
		params := map[string]string{}
		for _, kv := range k.pairs() {
			params[kv[0]] = kv[1]
		}
		tags := map[string]string{}
		for _, kv := range k.pairs() {
			tags[kv[0]] = kv[1]
		}
		prepend := ""
		if k.more() {
			prepend = k.str()
		}
		var custom func(*sp.Task)
		if k.more() && k.next() == "G" {
			// a Go-function process: the command is formed (and recorded) exactly as for a shell process
			custom = func(*sp.Task) {}
		}
		t := sp.NewTask(getWf(), p, p.Name(), pat, inIPs, pathFuncs, p.PortInfo, params, tags, prepend, custom, 1)
		return hx(t.Command)
	case "pathfmt":
		// cmdpattern outport pathpattern nIns (k v)* nPar (k v)* nTag (k v)*   -> SetOut path
		pat := k.str()
		oport := k.str()
		ppat := k.str()
		p := newProc(pat)
		p.SetOut(oport, ppat)
		inIPs := map[string]*sp.FileIP{}
		for _, kv := range k.pairs() {
			inIPs[kv[0]] = mkIP(kv[1])
		}
		params := map[string]string{}
		for _, kv := range k.pairs() {
			params[kv[0]] = kv[1]
		}
		tags := map[string]string{}
		for _, kv := range k.pairs() {
			tags[kv[0]] = kv[1]
		}
		t := sp.NewTask(getWf(), p, p.Name(), "echo", inIPs, nil, nil, params, tags, "", nil, 1)
		return hx(p.PathFuncs[oport](t))
	case "defpath":
		// procname cmdpattern nIns (k v)* nPar (k v)* nTag (k v)*  -> default paths of all out-ports (sorted by port)
		name := k.str()
		pat := k.str()
		// the process name is part of the default path, so the proc must carry exactly `name`
		w := sp.NewWorkflowCustomLogFile("t2d", 4, "/dev/null")
		p := sp.NewProc(w, name, pat)
		inIPs := map[string]*sp.FileIP{}
		for _, kv := range k.pairs() {
			inIPs[kv[0]] = mkIP(kv[1])
		}
		params := map[string]string{}
		for _, kv := range k.pairs() {
			params[kv[0]] = kv[1]
		}
		tags := map[string]string{}
		for _, kv := range k.pairs() {
			tags[kv[0]] = kv[1]
		}
		t := sp.NewTask(w, p, p.Name(), "echo", inIPs, nil, nil, params, tags, "", nil, 1)
		ports := []string{}
		for o := range p.OutPorts() {
			ports = append(ports, o)
		}
		sort.Strings(ports)
		res := []string{}
		for _, o := range ports {
			res = append(res, hx(o), hx(p.PathFuncs[o](t)))
		}
		return strconv.Itoa(len(ports)) + " " + strings.Join(res, " ")
	case "ports":
		// cmdpattern -> sorted in-ports / out-ports / param-ports
		pat := k.str()
		p := newProc(pat)
		out := []string{}
		add := func(tag string, names []string) {
			sort.Strings(names)
			out = append(out, tag, strconv.Itoa(len(names)))
			for _, n := range names {
				out = append(out, hx(n))
			}
		}
		ns := []string{}
		for n := range p.InPorts() {
			ns = append(ns, n)
		}
		add("I", ns)
		ns = []string{}
		for n := range p.OutPorts() {
			ns = append(ns, n)
		}
		add("O", ns)
		ns = []string{}
		for n := range p.InParamPorts() {
			ns = append(ns, n)
		}
		add("P", ns)
		return strings.Join(out, " ")
	case "mods":
		// path nMods mod*
		path := k.str()
		mods := k.strs()
		return hx(sp.VerifApplyPathModifiers(path, mods))
	case "paths":
		// path -> valid temppath tempdir fifopath | split-all pieces
		path := k.str()
		if !sp.VerifPathIsValid(path) {
			return "INVALID"
		}
		ip := mkIP(path)
		pcs := sp.VerifSplitAllPaths(path)
		hp := []string{}
		for _, c := range pcs {
			hp = append(hp, hx(c))
		}
		return strings.Join([]string{"OK", hx(ip.TempPath()), hx(ip.TempDir()), hx(ip.FifoPath()),
			hx(sp.VerifReplacePlaceholdersWithParentDirs(path)), strconv.Itoa(len(pcs))}, " ") + " " + strings.Join(hp, " ")
	case "sanitize":
		return hx(sp.VerifSanitizePathFragment(k.str()))
	case "combine":
		// nKeys (key n val*)*   (keys in the order given = the order passed to combine)
		nk := k.int()
		keys := []string{}
		m := map[string][]string{}
		for i := 0; i < nk; i++ {
			key := k.str()
			keys = append(keys, key)
			m[key] = k.strs()
		}
		res := components.VerifCombineParams(m, keys)
		out := []string{}
		for _, key := range keys {
			vals, ok := res[key]
			if !ok {
				out = append(out, hx(key), "0")
				continue
			}
			out = append(out, hx(key), strconv.Itoa(len(vals)))
			for _, v := range vals {
				out = append(out, hx(v))
			}
		}
		return strings.Join(out, " ")
	case "combinefiles":
		nk := k.int()
		keys := []string{}
		m := map[string][]*sp.FileIP{}
		for i := 0; i < nk; i++ {
			key := k.str()
			keys = append(keys, key)
			ips := []*sp.FileIP{}
			for _, v := range k.strs() {
				ips = append(ips, mkIP(v))
			}
			m[key] = ips
		}
		res := components.VerifCombineFiles(m, keys)
		out := []string{}
		for _, key := range keys {
			vals, ok := res[key]
			if !ok {
				out = append(out, hx(key), "0")
				continue
			}
			out = append(out, hx(key), strconv.Itoa(len(vals)))
			for _, v := range vals {
				out = append(out, hx(v.Path()))
			}
		}
		return strings.Join(out, " ")
	}
	return evalLine2(sub, k)
}

func worker(sub string) {
	sp.InitLogError()
	sc := bufio.NewScanner(os.Stdin)
	sc.Buffer(make([]byte, 1<<20), 1<<26)
	w := bufio.NewWriter(os.Stdout)
	for sc.Scan() {
		fmt.Fprintln(w, evalLine(sub, sc.Text()))
		w.Flush()
	}
}

func main() {
	if len(os.Args) < 2 {
		fmt.Fprintln(os.Stderr, "usage: t2 <subcommand>")
		os.Exit(2)
	}
	sub := os.Args[1]
	if len(os.Args) > 2 && os.Args[2] == "--worker" {
		worker(sub)
		return
	}
	all, _ := io.ReadAll(os.Stdin)
	lines := strings.Split(strings.TrimRight(string(all), "\n"), "\n")
	if len(all) == 0 {
		return
	}
	out := bufio.NewWriter(os.Stdout)
	defer out.Flush()
	pos := 0
	for pos < len(lines) {
		cmd := exec.Command(os.Args[0], sub, "--worker")
		cmd.Stdin = strings.NewReader(strings.Join(lines[pos:], "\n") + "\n")
		cmd.Stderr = io.Discard
		b, err := cmd.Output()
		got := []string{}
		if len(b) > 0 {
			// one answer per line; an answer may be the empty string, so only the final newline is dropped
			got = strings.Split(strings.TrimSuffix(string(b), "\n"), "\n")
		}
		for _, g := range got {
			fmt.Fprintln(out, g)
		}
		pos += len(got)
		if err != nil && pos < len(lines) {
			fmt.Fprintln(out, "<FAIL>")
			pos++
		} else if err == nil {
			break
		}
	}
}
