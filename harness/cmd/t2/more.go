package main

import (
	"encoding/json"
	"time"

	sp "github.com/scipipe/scipipe"
)

// parseRec reads: id proc cmd nparams (k v)* ntags (k v)* start finish neg exec nouts (k v)* nup (path rec)*
func parseRec(k *toks) *sp.AuditInfo {
	ai := sp.NewAuditInfo()
	ai.ID = k.str()
	ai.ProcessName = k.str()
	ai.Command = k.str()
	for _, kv := range k.pairs() {
		ai.Params[kv[0]] = kv[1]
	}
	for _, kv := range k.pairs() {
		ai.Tags[kv[0]] = kv[1]
	}
	st, err := time.Parse(time.RFC3339Nano, k.str())
	if err != nil {
		panic(err)
	}
	fi, err := time.Parse(time.RFC3339Nano, k.str())
	if err != nil {
		panic(err)
	}
	ai.StartTime, ai.FinishTime = st, fi
	neg := k.int() == 1
	n := k.int()
	if neg {
		n = -n
	}
	ai.ExecTimeNS = time.Duration(n)
	for _, kv := range k.pairs() {
		ai.OutFiles[kv[0]] = kv[1]
	}
	nup := k.int()
	for i := 0; i < nup; i++ {
		p := k.str()
		ai.Upstream[p] = parseRec(k)
	}
	return ai
}

func evalLine2(sub string, k *toks) string {
	switch sub {
	case "json":
		ai := parseRec(k)
		b1, err := json.MarshalIndent(ai, "", "    ")
		if err != nil {
			return "<FAIL>"
		}
		back := sp.NewAuditInfo()
		if err := json.Unmarshal(b1, back); err != nil {
			return hx(string(b1)) + " UNMARSHAL-ERROR"
		}
		b2, _ := json.MarshalIndent(back, "", "    ")
		if string(b1) == string(b2) {
			return hx(string(b1)) + " RT"
		}
		return hx(string(b1)) + " DIFF"
	}
	panic("unknown subcommand " + sub)
}
