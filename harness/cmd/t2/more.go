package main

func evalLine2(sub string, k *toks) string {
	panic("unknown subcommand " + sub)
}
