// wfrun: generic interpreter of workflow specs against the real scipipe library (T3 prototype)
package main

import (
	"bufio"
	"encoding/hex"
	"fmt"
	"os"
	"strconv"
	"strings"

	sp "github.com/scipipe/scipipe"
	"github.com/scipipe/scipipe/components"
)

func unhex(s string) string {
	if s == "-" {
		return ""
	}
	b, err := hex.DecodeString(s)
	if err != nil {
		panic(err)
	}
	return string(b)
}

type outer interface{ Out() *sp.OutPort }

func main() {
	f, err := os.Open(os.Args[1])
	if err != nil {
		panic(err)
	}
	max := 4
	var wf *sp.Workflow
	type nd struct {
		proc  *sp.Process
		fsrc  *components.FileSource
		psrc  *components.ParamSource
	}
	nodes := []nd{}
	sc := bufio.NewScanner(f)
	sc.Buffer(make([]byte, 1<<20), 1<<26)
	idx := 0
	for sc.Scan() {
		toks := strings.Fields(sc.Text())
		if len(toks) == 0 {
			continue
		}
		pos := 1
		next := func() string { t := toks[pos]; pos++; return t }
		switch toks[0] {
		case "MAX":
			max, _ = strconv.Atoi(next())
		case "SRC", "PSRC", "PROC":
			if wf == nil {
				wf = sp.NewWorkflowCustomLogFile("wfrun", max, "wfrun.log")
			}
			name := "n" + strconv.Itoa(idx)
			idx++
			switch toks[0] {
			case "SRC":
				paths := []string{}
				for pos < len(toks) {
					paths = append(paths, unhex(next()))
				}
				nodes = append(nodes, nd{fsrc: components.NewFileSource(wf, name, paths...)})
			case "PSRC":
				vals := []string{}
				for pos < len(toks) {
					vals = append(vals, unhex(next()))
				}
				nodes = append(nodes, nd{psrc: components.NewParamSource(wf, name, vals...)})
			case "PROC":
				kind := next()
				tok := unhex(next())
				nin, _ := strconv.Atoi(next())
				type inE struct{ port string; up int; upport string }
				ins := []inE{}
				for i := 0; i < nin; i++ {
					p := unhex(next())
					u, _ := strconv.Atoi(next())
					ins = append(ins, inE{p, u, unhex(next())})
				}
				npar, _ := strconv.Atoi(next())
				type parE struct{ port string; up int }
				pars := []parE{}
				for i := 0; i < npar; i++ {
					p := unhex(next())
					u, _ := strconv.Atoi(next())
					pars = append(pars, parE{p, u})
				}
				nout, _ := strconv.Atoi(next())
				type outE struct{ port, pat string }
				outs := []outE{}
				for i := 0; i < nout; i++ {
					p := unhex(next())
					outs = append(outs, outE{p, unhex(next())})
				}
				// render the command
				inRefs := []string{}
				for _, i := range ins {
					inRefs = append(inRefs, "{i:"+i.port+"}")
				}
				var body string
				switch kind {
				case "write":
					body = "echo " + tok
				case "cat":
					body = "cat " + strings.Join(inRefs, " ")
					if len(inRefs) == 0 {
						body = "printf ''"
					}
				default:
					body = "(cat " + strings.Join(inRefs, " ") + " < /dev/null; echo " + tok + ")"
				}
				cmds := []string{}
				for _, o := range outs {
					cmds = append(cmds, body+" > {o:"+o.port+"}")
				}
				if len(outs) == 0 {
					cmds = append(cmds, body+" > /dev/null")
				}
				cmd := strings.Join(cmds, "; ")
				// make sure every port exists even if the body does not mention it
				extra := []string{}
				if kind == "write" {
					extra = append(extra, inRefs...)
				}
				for _, q := range pars {
					extra = append(extra, "{p:"+q.port+"}")
				}
				if len(extra) > 0 {
					cmd += " # " + strings.Join(extra, " ")
				}
				p := wf.NewProc(name, cmd)
				for _, o := range outs {
					p.SetOut(o.port, o.pat)
				}
				for _, i := range ins {
					var op *sp.OutPort
					if nodes[i.up].fsrc != nil {
						op = nodes[i.up].fsrc.Out()
					} else {
						op = nodes[i.up].proc.Out(i.upport)
					}
					p.In(i.port).From(op)
				}
				for _, q := range pars {
					p.InParam(q.port).From(nodes[q.up].psrc.Out())
				}
				nodes = append(nodes, nd{proc: p})
			}
		}
	}
	wf.Run()
	fmt.Println("RUN-RETURNED")
}
