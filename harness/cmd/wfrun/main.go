// wfrun: generic interpreter of workflow specs against the real scipipe library (tie T3).
//
// usage: wfrun SPEC      (run in the scratch directory that is the workflow's working directory)
//
// Spec lines (strings are hex tokens, "-" is the empty string, "~" is "absent"):
//   MAX n
//   SRC name path*
//   PSRC name val*
//   S2S name upnode upport
//   PROC name cores kind tok failkind failkey pattern nin (port nups (upnode upport)*)*
//        npar (port (U upnode | V n val*))* nout (port pathpattern|~)* nextra extra* gofunc
//   COMP kind name args...         (bundled components, see components.go)
//   REC name upnode upport         (recorder: logs every received path, then forwards nothing)
//   RUNTO idx*
//   NEXTWF                         (what follows belongs to a further Workflow object of the same program: all workflows are
//                                   constructed first, then run one after the other; RUNTO applies to the last one)
// After Run/RunTo returns it prints RUN-RETURNED and a snapshot of the directory.
package main

import (
	"bufio"
	"encoding/hex"
	"fmt"
	"io/ioutil"
	"os"
	"path/filepath"
	"sort"
	"strconv"
	"strings"
	"time"

	sp "github.com/scipipe/scipipe"
	"github.com/scipipe/scipipe/components"
)

func unhex(s string) string {
	if s == "-" || s == "~" {
		return ""
	}
	b, err := hex.DecodeString(s)
	if err != nil {
		panic("bad hex token " + s)
	}
	return string(b)
}

func hx(s string) string {
	if s == "" {
		return "-"
	}
	return hex.EncodeToString([]byte(s))
}

type node struct {
	name  string
	proc  *sp.Process
	fsrc  *components.FileSource
	psrc  *components.ParamSource
	s2s   *components.StreamToSubStream
	other sp.WorkflowProcess
	outs  map[string]*sp.OutPort      // for components
	pouts map[string]*sp.OutParamPort // for components
}

func (n *node) out(port string) *sp.OutPort {
	switch {
	case n.fsrc != nil:
		return n.fsrc.Out()
	case n.s2s != nil:
		return n.s2s.OutSubStream()
	case n.proc != nil:
		return n.proc.Out(port)
	}
	if o, ok := n.outs[port]; ok {
		return o
	}
	panic("no out-port " + port + " on node " + n.name)
}

func (n *node) pout(port string) *sp.OutParamPort {
	if n.psrc != nil {
		return n.psrc.Out()
	}
	if o, ok := n.pouts[port]; ok {
		return o
	}
	panic("no param out-port " + port + " on node " + n.name)
}

type toks struct {
	t []string
	i int
}

func (k *toks) next() string { s := k.t[k.i]; k.i++; return s }
func (k *toks) str() string  { return unhex(k.next()) }
func (k *toks) int() int     { n, _ := strconv.Atoi(k.next()); return n }
func (k *toks) more() bool   { return k.i < len(k.t) }

var wf *sp.Workflow
var nodes []*node

func snapshot(tag string) {
	filepath.Walk(".", func(p string, fi os.FileInfo, err error) error {
		if err != nil || p == "." {
			return nil
		}
		kind := "f"
		if fi.IsDir() {
			kind = "d"
		} else if fi.Mode()&os.ModeNamedPipe != 0 {
			kind = "p"
		}
		fmt.Printf("%s %s %s %d\n", tag, hx(p), kind, fi.Size())
		return nil
	})
}

func main() {
	f, err := os.Open(os.Args[1])
	if err != nil {
		panic(err)
	}
	max := 4
	runto := []int{}
	rawPatterns := []string{}
	runtoMode := "N"
	haveRunTo := false
	sc := bufio.NewScanner(f)
	sc.Buffer(make([]byte, 1<<20), 1<<26)
	earlier := []*sp.Workflow{}
	wfCount := 0
	getWf := func() *sp.Workflow {
		if wf == nil {
			name := "wfrun"
			if wfCount > 0 {
				name = fmt.Sprintf("wfrun%d", wfCount+1)
			}
			wf = sp.NewWorkflowCustomLogFile(name, max, "wfrun.log")
		}
		return wf
	}
	for sc.Scan() {
		k := &toks{t: strings.Fields(sc.Text())}
		if len(k.t) == 0 {
			continue
		}
		switch k.next() {
		case "MAX":
			max = k.int()
		case "LOG":
			// the program chooses its log level before creating the workflow (public API; the first Init wins)
			switch k.next() {
			case "error":
				sp.InitLogError()
			case "warning":
				sp.InitLogWarning()
			case "audit":
				sp.InitLogAudit()
			case "info":
				sp.InitLogInfo()
			case "debug":
				sp.InitLogDebug()
			}
		case "SRC":
			name := k.str()
			paths := []string{}
			for k.more() {
				paths = append(paths, k.str())
			}
			nodes = append(nodes, &node{name: name, fsrc: components.NewFileSource(getWf(), name, paths...)})
		case "PSRC":
			name := k.str()
			vals := []string{}
			for k.more() {
				vals = append(vals, k.str())
			}
			nodes = append(nodes, &node{name: name, psrc: components.NewParamSource(getWf(), name, vals...)})
		case "S2S":
			name := k.str()
			up := k.int()
			upport := k.str()
			s := components.NewStreamToSubStream(getWf(), name)
			s.In().From(nodes[up].out(upport))
			for k.more() { // further upstream out-ports merged into the same adapter (not known to the reference evaluator)
				up2 := k.int()
				s.In().From(nodes[up2].out(k.str()))
			}
			nodes = append(nodes, &node{name: name, s2s: s})
		case "PROC":
			name := k.str()
			cores := k.int()
			_ = k.next() // kind (model only)
			tok := k.str()
			failkind := k.next()
			failkey := k.str()
			pattern := k.str()
			p := getWf().NewProc(name, pattern)
			p.CoresPerTask = cores
			nin := k.int()
			inPorts := []string{}
			for i := 0; i < nin; i++ {
				port := k.str()
				inPorts = append(inPorts, port)
				nups := k.int()
				for j := 0; j < nups; j++ {
					up := k.int()
					upport := k.str()
					p.In(port).From(nodes[up].out(upport))
				}
			}
			npar := k.int()
			parPorts := []string{}
			for i := 0; i < npar; i++ {
				port := k.str()
				parPorts = append(parPorts, port)
				switch k.next() {
				case "U":
					up := k.int()
					p.InParam(port).From(nodes[up].pout("out"))
				case "N":
					p.InParam(port) // created, left unconnected
				case "V":
					n := k.int()
					vals := []string{}
					for j := 0; j < n; j++ {
						vals = append(vals, k.str())
					}
					p.InParam(port).FromStr(vals...)
				}
			}
			nout := k.int()
			outPorts := []string{}
			for i := 0; i < nout; i++ {
				port := k.str()
				outPorts = append(outPorts, port)
				pt := k.next()
				if pt != "~" {
					p.SetOut(port, unhex(pt))
				}
			}
			nextra := k.int()
			for i := 0; i < nextra; i++ {
				k.str()
			}
			gofunc := k.more() && k.int() == 1
			if gofunc {
				p.CustomExecute = func(t *sp.Task) {
					key := name
					data := []byte{}
					for _, ip := range inPorts {
						key += " " + t.InPath(ip)
						data = append(data, t.InIP(ip).Read()...)
					}
					line := tok
					for _, pp := range parPorts {
						key += " " + t.Param(pp)
						line += " " + t.Param(pp)
					}
					data = append(data, []byte(line+"\n")...)
					trace("S " + key)
					fails := failkind != "none" && strings.Contains(key, failkey)
					if fails && failkind == "before" {
						t.Failf("custom function fails before writing")
					}
					if fails && failkind == "panic" {
						panic("custom function panics with a message before writing")
					}
					if fails && failkind == "panicerr" {
						panic(fmt.Errorf("custom function panics with an error value before writing"))
					}
					for i, op := range outPorts {
						if fails && failkind == "partial" {
							t.OutIP(op).Write([]byte("PARTIAL"))
							t.Failf("custom function fails after a partial write")
						}
						if fails && failkind == "omit" && i == len(outPorts)-1 {
							continue
						}
						t.OutIP(op).Write(data)
					}
					if fails && failkind == "afterfull" {
						t.Failf("custom function fails after writing everything")
					}
					trace("E " + key)
				}
			}
			nodes = append(nodes, &node{name: name, proc: p})
		case "COMP":
			nodes = append(nodes, mkComponent(getWf(), k))
		case "REC":
			name := k.str()
			up := k.int()
			upport := k.str()
			r := newRecorder(getWf(), name)
			r.InPort("in").From(nodes[up].out(upport))
			nodes = append(nodes, &node{name: name, other: r})
		case "PREC":
			name := k.str()
			up := k.int()
			upport := k.str()
			r := newRecorder(getWf(), name)
			r.InParamPort("pin").From(nodes[up].pout(upport))
			nodes = append(nodes, &node{name: name, other: r})
		case "NEXTWF":
			earlier = append(earlier, getWf())
			wf = nil
			wfCount++
			nodes = append(nodes, &node{name: "-nextwf-"}) // keeps node indices aligned with the spec
		case "RUNTO":
			haveRunTo = true
			runtoMode = k.next()
			if runtoMode == "X" { // RunToRegex with the patterns given literally (hex tokens)
				for k.more() {
					rawPatterns = append(rawPatterns, k.str())
				}
				break
			}
			for k.more() {
				runto = append(runto, k.int())
			}
		}
	}
	for _, w := range earlier {
		w.Run()
	}
	if haveRunTo {
		names := []string{}
		for _, i := range runto {
			names = append(names, nodes[i].name)
		}
		switch runtoMode {
		case "X":
			getWf().RunToRegex(rawPatterns...)
		case "R":
			pats := []string{}
			for _, n := range names {
				pats = append(pats, "^"+n+"$")
			}
			getWf().RunToRegex(pats...)
		case "P":
			ps := []sp.WorkflowProcess{}
			for _, n := range names {
				ps = append(ps, getWf().Proc(n))
			}
			getWf().RunToProcs(ps...)
		default:
			getWf().RunTo(names...)
		}
	} else {
		getWf().Run()
	}
	fmt.Println("RUN-RETURNED")
	snapshot("SNAP")
	fmt.Println("SNAP-END")
}

func trace(line string) {
	p := os.Getenv("VERIF_TRACE")
	if p == "" {
		return
	}
	f, err := os.OpenFile(p, os.O_APPEND|os.O_CREATE|os.O_WRONLY, 0644)
	if err != nil {
		return
	}
	fmt.Fprintf(f, "%s %d\n", line, nowNano())
	f.Close()
}

// recorder: a sink-like component written against the public component API; it logs what it receives
type recorder struct {
	sp.BaseProcess
}

func newRecorder(wf *sp.Workflow, name string) *recorder {
	r := &recorder{BaseProcess: sp.NewBaseProcess(wf, name)}
	r.InitInPort(r, "in")
	r.InitInParamPort(r, "pin")
	r.InitOutPort(r, "done") // so that the recorder is never taken for the driver process
	wf.AddProc(r)
	return r
}

func (r *recorder) Ready() bool { return r.InPort("in").Ready() || r.InParamPort("pin").Ready() }

func (r *recorder) Run() {
	defer r.CloseOutPorts()
	lines := []string{}
	if r.InPort("in").Ready() {
		for ip := range r.InPort("in").Chan {
			if d := slowMillis(r.Name()); d > 0 {
				time.Sleep(time.Duration(d) * time.Millisecond)
			}
			tags := []string{}
			for k, v := range ip.Tags() {
				tags = append(tags, hx(k)+"="+hx(v))
			}
			sort.Strings(tags)
			lines = append(lines, "IP "+hx(ip.Path())+" "+strings.Join(tags, ","))
		}
	}
	if r.InParamPort("pin").Ready() {
		for v := range r.InParamPort("pin").Chan {
			lines = append(lines, "PARAM "+hx(v))
		}
	}
	ioutil.WriteFile("REC."+r.Name(), []byte(strings.Join(lines, "\n")+"\n"), 0644)
}

// slowMillis: a recorder named ..._slow<ms> waits that long before it takes the next item (a slow consumer)
func slowMillis(name string) int {
	i := strings.LastIndex(name, "_slow")
	if i < 0 {
		return 0
	}
	n, err := strconv.Atoi(name[i+5:])
	if err != nil {
		return 0
	}
	return n
}
