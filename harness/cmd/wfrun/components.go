package main

import (
	"fmt"
	"io/ioutil"
	"path/filepath"
	"strings"
	"time"

	sp "github.com/scipipe/scipipe"
	"github.com/scipipe/scipipe/components"
)

func nowNano() int64 { return time.Now().UnixNano() }

// mkComponent builds one of the bundled components from a COMP line
func mkComponent(wf *sp.Workflow, k *toks) *node {
	kind := k.next()
	name := k.str()
	n := &node{name: name, outs: map[string]*sp.OutPort{}, pouts: map[string]*sp.OutParamPort{}}
	switch kind {
	case "fcomb":
		c := components.NewFileCombinator(wf, name)
		np := k.int()
		for i := 0; i < np; i++ {
			port := k.str()
			up := k.int()
			upport := k.str()
			c.In(port).From(nodes[up].out(upport))
			n.outs[port] = c.Out(port)
		}
		n.other = c
	case "pcomb":
		c := components.NewParamCombinator(wf, name)
		np := k.int()
		for i := 0; i < np; i++ {
			port := k.str()
			up := k.int()
			upport := k.str()
			c.InParam(port).From(nodes[up].pout(upport))
			n.pouts[port] = c.OutParam(port)
		}
		n.other = c
	case "concat":
		outPath := k.str()
		up := k.int()
		upport := k.str()
		c := components.NewConcatenator(wf, name, outPath)
		if k.more() {
			c.GroupByTag = k.str()
		}
		c.In().From(nodes[up].out(upport))
		n.outs["out"] = c.Out()
		n.other = c
	case "split":
		lines := k.int()
		up := k.int()
		upport := k.str()
		c := components.NewFileSplitter(wf, name, lines)
		c.InFile().From(nodes[up].out(upport))
		n.outs["split_file"] = c.OutSplitFile()
		n.other = c
	case "select":
		predkey := k.str()
		c := components.NewIPSelectorSync(wf, name, func(ip *sp.FileIP) bool { return !strings.Contains(ip.Path(), predkey) })
		np := k.int()
		for i := 0; i < np; i++ {
			port := k.str()
			up := k.int()
			upport := k.str()
			c.In(port).From(nodes[up].out(upport))
			n.outs[port] = c.Out(port)
		}
		n.other = c
	case "maptags":
		tagkey := k.str()
		up := k.int()
		upport := k.str()
		delay := 0
		if k.more() {
			delay = k.int()
		}
		c := components.NewMapToTags(wf, name, func(ip *sp.FileIP) map[string]string {
			if delay > 0 {
				time.Sleep(time.Duration(delay) * time.Millisecond)
			}
			return map[string]string{tagkey: filepath.Base(ip.Path())}
		})
		c.In().From(nodes[up].out(upport))
		n.outs["out"] = c.Out()
		n.other = c
	case "glob":
		np := k.int()
		pats := []string{}
		for i := 0; i < np; i++ {
			pats = append(pats, k.str())
		}
		c := components.NewFileGlobber(wf, name, pats...)
		n.outs["out"] = c.Out()
		n.other = c
	case "f2p":
		c := components.NewFileToParamsReader(wf, name, k.str())
		n.pouts["line"] = c.OutLine()
		n.pouts["out"] = c.OutLine()
		n.other = c
	case "c2p":
		c := components.NewCommandToParams(wf, name, k.str())
		n.pouts["param"] = c.OutParam()
		n.pouts["out"] = c.OutParam()
		n.other = c
	case "pace":
		// forwards the IPs of one upstream out-port unchanged, waiting delays[i] ms before the i-th one
		up := k.int()
		upport := k.str()
		delays := []int{}
		for k.more() {
			delays = append(delays, k.int())
		}
		g := newPacer(wf, name, delays)
		g.InPort("in").From(nodes[up].out(upport))
		n.outs["out"] = g.OutPort("out")
		n.other = g
	case "groups":
		// a grouping component written against the public API: one carrier IP per group on "groups", the members of the group
		// delivered on the sub-stream port every FileIP is created with, delay ms after the carrier was sent (each group by a
		// goroutine of its own), then that port is closed.   COMP groups name ngroups { carrier delay nmembers member... }
		ng := k.int()
		gs := []group{}
		for i := 0; i < ng; i++ {
			g := group{carrier: k.str(), delay: k.int()}
			nm := k.int()
			for j := 0; j < nm; j++ {
				g.members = append(g.members, k.str())
			}
			gs = append(gs, g)
		}
		c := newGrouper(wf, name, gs)
		n.outs["groups"] = c.OutPort("groups")
		n.other = c
	case "pairgen":
		// a component written against the public API that emits, in lock-step, a parameter value on "out" (parameter
		// port) and a file on "out" (file port): v0, f0, v1, f1, ...
		cnt := k.int()
		g := newPairGen(wf, name, cnt)
		n.outs["out"] = g.OutPort("out")
		n.pouts["out"] = g.OutParamPort("out")
		n.other = g
	default:
		panic("unknown component kind " + kind)
	}
	return n
}

type pacer struct {
	sp.BaseProcess
	delays []int
}

func newPacer(wf *sp.Workflow, name string, delays []int) *pacer {
	g := &pacer{BaseProcess: sp.NewBaseProcess(wf, name), delays: delays}
	g.InitInPort(g, "in")
	g.InitOutPort(g, "out")
	wf.AddProc(g)
	return g
}

func (g *pacer) Run() {
	defer g.CloseAllOutPorts()
	i := 0
	for ip := range g.InPort("in").Chan {
		if i < len(g.delays) && g.delays[i] > 0 {
			time.Sleep(time.Duration(g.delays[i]) * time.Millisecond)
		}
		g.OutPort("out").Send(ip)
		i++
	}
}

type group struct {
	carrier string
	delay   int
	members []string
}

type grouper struct {
	sp.BaseProcess
	groups []group
}

func newGrouper(wf *sp.Workflow, name string, gs []group) *grouper {
	g := &grouper{BaseProcess: sp.NewBaseProcess(wf, name), groups: gs}
	g.InitOutPort(g, "groups")
	wf.AddProc(g)
	return g
}

func (g *grouper) Run() {
	defer g.CloseAllOutPorts()
	for _, gr := range g.groups {
		carrier, err := sp.NewFileIP(gr.carrier)
		if err != nil {
			g.Fail(err)
		}
		g.OutPort("groups").Send(carrier)
		go func(gr group, carrier *sp.FileIP) {
			time.Sleep(time.Duration(gr.delay) * time.Millisecond)
			for _, m := range gr.members {
				ip, err := sp.NewFileIP(m)
				if err != nil {
					g.Fail(err)
				}
				carrier.SubStream.Send(ip)
			}
			close(carrier.SubStream.Chan)
		}(gr, carrier)
	}
}

type pairGen struct {
	sp.BaseProcess
	n int
}

func newPairGen(wf *sp.Workflow, name string, n int) *pairGen {
	g := &pairGen{BaseProcess: sp.NewBaseProcess(wf, name), n: n}
	g.InitOutPort(g, "out")
	g.InitOutParamPort(g, "out")
	wf.AddProc(g)
	return g
}

func (g *pairGen) Run() {
	defer g.CloseAllOutPorts()
	for i := 0; i < g.n; i++ {
		g.OutParamPort("out").Send(fmt.Sprintf("v%d", i))
		path := fmt.Sprintf("%s_%02d.txt", g.Name(), i)
		ioutil.WriteFile(path, []byte(path+"\n"), 0644)
		ip, err := sp.NewFileIP(path)
		if err != nil {
			panic(err)
		}
		g.OutPort("out").Send(ip)
	}
}
