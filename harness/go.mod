module verifharness

go 1.13

require github.com/scipipe/scipipe v0.0.0

replace github.com/scipipe/scipipe => /repo
