#!/bin/bash
# runs the quick tier of every check on /repo as it is, printing the verdict line and the wall time of each
cd "$(dirname "$0")/.."
./run.sh setup | tail -1
rc=0
for c in C01 C02 C03 C04 C05 C06 C07 C08 C09 C10 C11 C12 C13 C14 C15 C16 C17 C18 C19 C20; do
  s=$(date +%s)
  ./run.sh quick $c 2>&1 | grep -E "VIOLATION|quick:" | tail -4
  [ ${PIPESTATUS[0]} -ne 0 ] && rc=1
  echo "   [$c took $(( $(date +%s) - s )) s]"
done
exit $rc
