# T3-replay: the hook event log of one real run is turned into a script over the actions of a transition system of the
# Coq development (Slots, TaskFS, NetA + Ghost) and given to build/bin/rdriver, which runs the extracted Replay.replay:
# the system's own step function decides whether it has an execution that explains the log.  The state the accepted
# execution ends in is then compared with what was observed on disk / in the log.
#
# Log conventions (hooks_on.go): publishing operations (send, rename, unlock, slot removal) are logged before they
# happen, acquiring ones (receive, lock, slot deposit) after; blocking channel operations are logged at both ends.
import os, subprocess
from tools import vlib


def run_rdriver(system, text, timeout=300):
    r = subprocess.run([os.path.join(vlib.BIN, "rdriver"), system], input=text, text=True, capture_output=True, timeout=timeout)
    if r.returncode != 0:
        return {"verdict": "ERROR", "detail": r.stderr[-400:], "lines": []}
    lines = [ln.split() for ln in r.stdout.splitlines() if ln.strip()]
    res = {"verdict": None, "lines": lines, "table": None, "unpredicted": []}
    for t in lines:
        if t[0] == "ACCEPT":
            res["verdict"], res["steps"], res["pending"] = "ACCEPT", int(t[1]), [int(x) for x in t[2:]]
        elif t[0] == "REJECT":
            res["verdict"], res["line"], res["why"] = "REJECT", int(t[1]), t[2]
        elif t[0] == "TABLE":
            res["table"] = t[1]
        elif t[0] == "UNPREDICTED-TASK":
            res["unpredicted"].append(" ".join(t[1:]))
    return res


def task_events(hooks):
    """exec.start events: gid -> task description; tempdir -> the same"""
    by_gid, by_dir, order = {}, {}, []
    for ts, name, n, keys, gid in hooks:
        if name == "exec.start" and keys:
            d = {"dir": keys[0], "proc": None, "ins": [], "pars": [], "outs": [], "cores": 1, "gid": gid, "idx": len(order)}
            for k in keys[1:]:
                if k.startswith("p:"):
                    d["proc"] = k[2:]
                elif k.startswith("i:"):
                    port, _, path = k[2:].partition("=")
                    d["ins"].append((port, path))
                elif k.startswith("q:"):
                    port, _, v = k[2:].partition("=")
                    d["pars"].append((port, v))
                elif k.startswith("os:"):
                    port, _, path = k[3:].partition("=")
                    d["outs"].append((port, True, path))
                elif k.startswith("o:"):
                    port, _, path = k[2:].partition("=")
                    d["outs"].append((port, False, path))
                elif k.startswith("c:"):
                    d["cores"] = int(k[2:])
            if d["proc"] is None:
                # the hook always writes the process name (verifTaskKeys): a record without it is a log line torn by the
                # kill of a crash case (seen once in vp check #12, C03); it describes no task
                continue
            by_gid[gid] = d
            by_dir[d["dir"]] = d
            order.append(d)
    return by_gid, by_dir, order


# ------------------------------------------------------------------ slots

def slots_script(hooks, maxtasks):
    by_gid, by_dir, order = task_events(hooks)
    out = ["slots %d %d %s" % (maxtasks, len(order), " ".join(str(t["cores"]) for t in order))]
    notes = []          # which log line each script line came from
    st = {}             # gid -> {"dep": deposits logged, "op": pending id}
    nid = [0]
    skipped = set()
    def emit(s, ev):
        out.append(s); notes.append(ev)
    for ev in hooks:
        ts, name, n, keys, gid = ev
        if name == "exec.skip":
            skipped.add(gid)
        if not (name.startswith("slots.") or name in ("exec.after_finalize", "exec.released")):
            continue
        t = by_gid.get(gid)
        if t is None:
            emit("chk 90 tokens -1", ev)       # a slot event of a goroutine that is not a task: cannot be explained
            continue
        i = t["idx"]
        s = st.setdefault(gid, {"dep": 0, "op": None})
        if gid in skipped:
            emit("chk 91 tokens -1", ev)       # a skipped task touches the slots
            continue
        if name == "slots.before_lock":
            emit("chk 1 task %d 0 -1" % i, ev); emit("do %d" % i, ev)
        elif name == "slots.locked":
            emit("chk 2 task %d 1 -1" % i, ev); emit("do %d" % i, ev)
            nid[0] += 1; s["op"] = nid[0]; emit("begin %d %d" % (nid[0], i), ev)
        elif name == "slots.deposited":
            if s["op"] is None:
                emit("chk 92 tokens -1", ev)
                continue
            emit("end %d" % s["op"], ev); s["dep"] += 1
            emit("chk 3 task %d 2 %d" % (i, s["dep"]), ev)
            if s["dep"] < t["cores"]:
                nid[0] += 1; s["op"] = nid[0]; emit("begin %d %d" % (nid[0], i), ev)
            else:
                s["op"] = None
        elif name == "slots.before_unlock":
            emit("chk 4 task %d 2 %d" % (i, t["cores"]), ev); emit("do %d" % i, ev); emit("chk 5 task %d 3 -1" % i, ev)
        elif name == "exec.after_finalize":
            emit("chk 6 task %d 3 -1" % i, ev); emit("do %d" % i, ev)
        elif name == "slots.removing":
            emit("chk 7 task %d 4 -1" % i, ev); emit("do %d" % i, ev)
        elif name == "exec.released":
            emit("chk 8 task %d 4 0" % i, ev); emit("do %d" % i, ev); emit("chk 9 task %d 5 -1" % i, ev)
    return "\n".join(out) + "\n", notes, order


def slots_problems(impl, maxtasks, completed):
    text, notes, order = slots_script(impl["hooks"], maxtasks)
    res = run_rdriver("slots", text)
    probs = []
    if res["verdict"] == "REJECT":
        ev = notes[res["line"]] if res["line"] < len(notes) else None
        probs.append(("replay-slots", "the slot machine (Slots.step) has no execution that explains the event log: %s at log event %s; script line %r" % (
            res["why"], ev and (ev[1], ev[2], "g%d" % ev[4]), text.splitlines()[res["line"] + 1])))
    elif res["verdict"] != "ACCEPT":
        probs.append(("replay-error", "rdriver slots: %s" % res.get("detail")))
    elif completed:
        for t in res["lines"]:
            if t[0] == "tokens" and t[1] != "0":
                probs.append(("replay-slots", "run completed but the replayed slot machine still holds %s tokens" % t[1]))
            if t[0] == "task" and t[2] not in ("5", "0"):
                probs.append(("replay-slots", "run completed but task %s of the replayed slot machine is in state %s" % (t[1], t[2])))
    return probs, {"slots_events": len(notes), "slots_tasks": len(order), "slots_verdict": res["verdict"]}


# ------------------------------------------------------------------ tasks and the file store

def _norm(p):
    return os.path.normpath(p)


def observed_file(impl, path):
    """('f', data) / None for a path as scipipe names it (relative to work/)"""
    q = _norm(path)
    if q.startswith("/"):
        return "?"
    v = impl["fs_outside"].get(q) if q.startswith("../") else impl["fs"].get(q)
    if v is None:
        return None
    return v[1] if v[0] == "f" else None


def task_script(spec, model, impl, initial_files):
    """initial_files: path -> content present before the run (sources, planted outputs, outputs of earlier runs)"""
    hooks = impl["hooks"]
    by_gid, by_dir, order = task_events(hooks)
    procs = {p.name: p for p in spec.procs()}
    # locations and contents
    loc, cont = {}, {}
    def L(p):
        p = _norm(p)
        return loc.setdefault(p, len(loc))
    def C(c):
        return cont.setdefault(c, len(cont))
    mtasks = [t for t in model["tasks"] if t["status"] in ("run", "skip", "fail")]
    rows, keyidx = [], {}
    for ti, t in enumerate(mtasks):
        ins = []
        for port, kind, paths in t["ins"]:
            for q in paths:
                ins.append(q)
        # a streamed input is a FIFO, not a file of the store
        streamed = set()
        for t2 in mtasks:
            for port, st, path in t2["outs"]:
                if st:
                    streamed.add(_norm(path))
        ins = [q for q in ins if _norm(q) not in streamed]
        outs = [path for port, st, path in t["outs"] if not st]
        p = procs.get(t["proc"])
        fails_cmd = t["status"] == "fail" and not (p is not None and p.fail == "omit")
        expect = []
        for q in ins:
            c = model["files"].get(q, initial_files.get(q, initial_files.get(_norm(q))))
            expect.append(C(c) if c is not None else -1)
        row = {"ins": [L(q) for q in ins], "outs": [L(q) for q in outs], "expect": expect,
               "outc": None if fails_cmd else [C(t["content"])] * len(outs), "mt": t,
               "omit": [L(outs[-1])] if (t["status"] == "fail" and p is not None and p.fail == "omit" and outs) else []}
        rows.append(row)
        keyidx[(t["proc"], tuple(sorted(_norm(path) for port, st, path in t["outs"])), tuple(sorted(_norm(q) for port, kind, ps in t["ins"] for q in ps)),
                tuple(sorted(v for k, v in t["pars"])))] = ti
    out = []
    notes = []
    def emit(s, ev=None):
        out.append(s); notes.append(ev)
    header = []
    for r in rows:
        header.append("row %d %s %d %s %d %s %s" % (len(r["ins"]), " ".join(map(str, r["ins"])), len(r["outs"]), " ".join(map(str, r["outs"])),
                                                  len(r["expect"]), " ".join(map(str, r["expect"])),
                                                  "fail" if r["outc"] is None else "ok %d %s" % (len(r["outc"]), " ".join(map(str, r["outc"])))))
    for p, c in initial_files.items():
        header.append("f0 %d %d" % (L(p), C(c)))
    # map event tasks to rows
    def row_of(d):
        k = (d["proc"], tuple(sorted(_norm(path) for port, st, path in d["outs"])), tuple(sorted(_norm(q) for port, q in d["ins"])),
             tuple(sorted(v for k, v in d["pars"])))
        if k in keyidx:
            return keyidx[k]
        # joined in-ports: the event lists the carrier only; match on process, outputs and parameters
        cands = [i for kk, i in keyidx.items() if kk[0] == k[0] and kk[1] == k[1] and kk[3] == k[3]]
        return cands[0] if len(cands) == 1 else None
    tix = {}
    unknown = []
    for d in order:
        r = row_of(d)
        if r is None:
            unknown.append(d)
        else:
            tix[d["dir"]] = r
    # left-over temp dirs present before the run are told to the model through `left`
    state = {}     # dir -> last phase seen
    pending_perm = {}
    evs = list(hooks)
    for idx, ev in enumerate(evs):
        ts, name, n, keys, gid = ev
        if not keys or not (name.startswith("exec.") or name.startswith("fin.")):
            continue
        d = keys[0]
        if d not in tix:
            continue
        t = tix[d]
        r = rows[t]
        if name == "exec.start":
            emit("do start %d" % t, ev); state[d] = "start"
        elif name == "exec.skip":
            emit("do chktemp %d" % t, ev); emit("do chkout %d" % t, ev); emit("chk 10 pc %d 9" % t, ev); state[d] = "skip"
        elif name == "exec.before_acquire":
            emit("do chktemp %d" % t, ev); emit("do chkout %d" % t, ev); emit("chk 11 pc %d 3" % t, ev); state[d] = "acq"
        elif name == "exec.after_mkdir":
            emit("do mktemp %d" % t, ev); state[d] = "cmd"
        elif name == "exec.after_command":
            emit("do cmdok %d %d %s" % (t, len(r["omit"]), " ".join(map(str, r["omit"]))), ev); state[d] = "ensure"
        elif name == "exec.after_ensure":
            # the order of the renames is the order of the fin.before_rename events that follow
            perm = []
            for ev2 in evs[idx + 1:]:
                if ev2[1] == "fin.before_rename" and ev2[3] and ev2[3][0] == d:
                    perm.append(L(ev2[3][1]))
                if ev2[1] in ("fin.before_removeall", "exec.after_finalize") and ev2[3] and ev2[3][0] == d:
                    break
            perm += [x for x in r["outs"] if x not in perm]
            emit("do ensure %d %d %s" % (t, len(perm), " ".join(map(str, perm))), ev); state[d] = "ren"
        elif name == "fin.after_rename":
            x = L(keys[1])
            emit("do rename %d" % t, ev)
            c = r["outc"][r["outs"].index(x)] if (r["outc"] is not None and x in r["outs"]) else -1
            emit("chk 12 fin %d %d" % (x, c), ev)
        elif name == "fin.before_removeall":
            emit("do endren %d" % t, ev); state[d] = "rm"
        elif name == "fin.after_removeall":
            emit("do rmtemp %d" % t, ev); state[d] = "done"
    return header, out, notes, rows, tix, state, loc, cont, unknown


def task_problems(spec, model, impl, initial_files, leftover_dirs=(), crash=None, compare_state=True):
    header, out, notes, rows, tix, state, loc, cont, unknown = task_script(spec, model, impl, initial_files)
    probs = []
    info = {"task_events": len(out), "task_rows": len(rows)}
    if unknown:
        probs.append(("replay-tasks", "tasks in the event log that the reference evaluator does not predict: %s" % [(d["proc"], d["outs"]) for d in unknown][:3]))
    failed_exit = impl["rc"] not in (0, None) and not impl.get("killed") and crash is None and not impl["timed_out"] and impl["rc"] > 0
    tail = []
    if failed_exit:
        # the program left through Fail: exactly one task must be able to take a failing step from where the log left it
        for d, ph in state.items():
            t = tix[d]
            r = rows[t]
            if ph == "start" and d in leftover_dirs:
                tail.append("do chktemp %d" % t); break
            if ph == "cmd" and r["outc"] is None:
                tail.append("do cmdfail %d" % t); break
            if ph == "ensure" and r["omit"]:
                tail.append("do ensure %d %d %s" % (t, len(r["outs"]), " ".join(map(str, r["outs"])))); break
    left = ["left %d" % tix[d] for d in leftover_dirs if d in tix]
    text = "\n".join(["nloc %d" % len(loc)] + header + left + out + tail) + "\n"
    res = run_rdriver("tasks", text)
    info["task_verdict"] = res["verdict"]
    nh = 1 + len(header) + len(left)
    if res["table"] != "well-formed":
        info["task_table"] = res["table"]     # distinctness of outputs is the guard of C01..C03; reported, not an alarm
    if res["verdict"] == "REJECT":
        i = res["line"]
        ev = notes[i] if i < len(notes) else None
        probs.append(("replay-tasks", "the task machine (TaskFS.step) has no execution that explains the event log: %s at log event %s; script line %r" % (
            res["why"], ev and (ev[1], ev[2], ev[3][:2]), (out + tail)[i] if i < len(out + tail) else None)))
        return probs, info
    if res["verdict"] != "ACCEPT":
        probs.append(("replay-error", "rdriver tasks: %s" % res.get("detail")))
        return probs, info
    if not compare_state:
        return probs, info
    # the state the model ends in against the disk
    inv_loc = {v: k for k, v in loc.items()}
    inv_cont = {v: k for k, v in cont.items()}
    mfin, mtask, mexit = {}, {}, None
    for t in res["lines"]:
        if t[0] == "fin":
            mfin[int(t[1])] = None if t[2] == "-" else int(t[2])
        elif t[0] == "task":
            mtask[int(t[1])] = (int(t[2]), t[3] == "1")
        elif t[0] == "exited":
            mexit = t[1] == "1"
    # operations in flight when the process died may or may not have reached the disk
    in_flight = set()
    dirs_in_flight = set()
    hooks = impl["hooks"]
    last = {}
    for ts, name, n, keys, gid in hooks:
        if keys and (name.startswith("fin.") or name.startswith("exec.")):
            last[keys[0]] = (name, keys)
    died = impl.get("killed") or crash is not None or impl["timed_out"] or (impl["rc"] is not None and impl["rc"] < 0) or failed_exit
    if died:
        for d, (name, keys) in last.items():
            if name == "fin.before_rename":
                in_flight.add(loc.get(_norm(keys[1])))
            if name in ("exec.before_acquire", "fin.before_removeall", "exec.start"):
                dirs_in_flight.add(d)
    for x, c in sorted(mfin.items()):
        p = inv_loc[x]
        obs = observed_file(impl, p)
        if obs == "?" or x in in_flight:
            continue
        want = None if c is None else inv_cont[c]
        if obs != want:
            probs.append(("replay-tasks-state", "after replaying the log the task machine has %r at %s, the disk has %r" % (want, p, obs)))
    seen_dirs = {p for p, v in impl["fs"].items() if v[0] == "d" and os.path.basename(p).startswith("_scipipe_tmp")}
    for d, t in tix.items():
        if d in dirs_in_flight or t not in mtask:
            continue
        has = _norm(d) in seen_dirs
        if mtask[t][1] != has:
            probs.append(("replay-tasks-state", "after replaying the log the task machine says temp dir %s %s, the disk says it %s" % (
                d, "exists" if mtask[t][1] else "does not exist", "exists" if has else "does not exist")))
    if failed_exit and mexit is False and any(r["outc"] is None or r["omit"] for r in rows) and not leftover_dirs:
        probs.append(("replay-tasks-state", "the program exited with status %s but no task of the replayed task machine can take a failing step" % impl["rc"]))
    if impl["rc"] == 0 and mexit:
        probs.append(("replay-tasks-state", "the replayed task machine has failed but the program exited with status 0"))
    info["task_state_compared"] = len(mfin)
    return probs, info


# ------------------------------------------------------------------ the process network

def net_applicable(spec):
    if spec.runto is not None:
        return False
    for n in spec.nodes:
        if n[0] == "RAW" and n[1].split()[0] in ("REC", "PREC"):
            continue          # recorders only consume: like the sink, they are outside the network model
        if n[0] not in ("SRC", "PSRC", "PROC"):
            return False
        if n[0] == "PROC":
            p = n[1]
            if p.stream_outs or p.join or p.gofunc:
                return False
            if any(len(ups) != 1 for port, ups in p.ins):
                return False
            if any(src[0] == "N" for port, src in p.pars):
                return False
    return True


class NetMap:
    """nodes, edges, items and the task table of a spec, as the network model numbers them"""
    def __init__(self, spec, model, bufsize):
        self.node_of_spec, self.kind, self.name = {}, [], []
        self.edges = []            # (src, dst, par, inport-name, outport-name-of-the-source)
        self.items = {}
        self.srcitems = {}
        self.cap = bufsize
        self.feeder = {}           # (spec node index, port) -> feeder node
        nodes = spec.nodes
        for i, n in enumerate(nodes):
            if n[0] == "PROC":
                for port, src in n[1].pars:
                    if src[0] == "V":
                        v = len(self.kind); self.kind.append("feeder"); self.name.append(n[1].name + "." + port + ".feeder")
                        self.feeder[(i, port)] = v
                        self.srcitems[v] = [self.I("p", x) for x in src[1]]
            v = len(self.kind); self.node_of_spec[i] = v
            self.kind.append({"SRC": "src", "PSRC": "psrc", "PROC": "proc", "RAW": "rec"}[n[0]])
            self.name.append(n[1].name if n[0] == "PROC" else ("#rec%d" % i if n[0] == "RAW" else n[1]))
            if n[0] == "SRC":
                self.srcitems[v] = [self.I("f", p) for p in n[2]]
            elif n[0] == "PSRC":
                self.srcitems[v] = [self.I("p", x) for x in n[2]]
        self.edge_of_inport = {}
        self.outport_of_edge = {}
        for i, n in enumerate(nodes):
            if n[0] != "PROC":
                continue
            p = n[1]; v = self.node_of_spec[i]
            for port, ups in p.ins:
                u, upport = ups[0]
                self._edge(self.node_of_spec[u], v, False, p.name + "." + port, upport)
            for port, src in p.pars:
                if src[0] == "U":
                    self._edge(self.node_of_spec[src[1]], v, True, p.name + "." + port, "out")
                else:
                    self._edge(self.feeder[(i, port)], v, True, p.name + "." + port, "string_feeder")
        # a process without any port runs once: a source of one (dummy) item
        for i, n in enumerate(nodes):
            if n[0] == "PROC" and not n[1].ins and not n[1].pars:
                self.srcitems[self.node_of_spec[i]] = [self.I("u", n[1].name)]
                self.kind[self.node_of_spec[i]] = "solo"
        self.ins = {v: [e for e, ed in enumerate(self.edges) if ed[1] == v] for v in range(len(self.kind))}
        self.outs = {v: [e for e, ed in enumerate(self.edges) if ed[0] == v] for v in range(len(self.kind))}
        # the task table: per process node the tuples (in edge order) and what each out-edge carries
        self.outf = {}
        self.pred = {v: [] for v in range(len(self.kind))}
        byproc = {}
        for t in model["tasks"]:
            byproc.setdefault(t["proc"], []).append(t)
        for i, n in enumerate(nodes):
            if n[0] != "PROC":
                continue
            p = n[1]; v = self.node_of_spec[i]
            for t in byproc.get(p.name, []):
                if t["status"] not in ("run", "skip", "fail"):
                    continue
                vals = {}
                for port, kind, paths in t["ins"]:
                    vals[p.name + "." + port] = self.I("f", paths[0]) if paths else None
                for k, val in t["pars"]:
                    vals[p.name + "." + k] = self.I("p", val)
                tup = [vals.get(self.edges[e][3]) for e in self.ins[v]] if self.kind[v] != "solo" else list(self.srcitems[v])
                if any(x is None for x in tup):
                    continue
                self.pred[v].append(tup)
                outpath = {port: path for port, st, path in t["outs"]}
                for e in self.outs[v]:
                    op = self.edges[e][4]
                    if op in outpath:
                        self.outf[(v, e, tuple(tup))] = self.I("f", outpath[op])
        for v, its in self.srcitems.items():
            if self.kind[v] == "solo":
                continue
            for it in its:
                for e in self.outs[v]:
                    self.outf[(v, e, (it,))] = it
            self.pred[v] = [[it] for it in its]

    def I(self, ns, x):
        return self.items.setdefault((ns, os.path.normpath(x) if ns == "f" else x), len(self.items))

    def _edge(self, u, v, par, inport, upport):
        self.edge_of_inport[inport] = len(self.edges)
        self.edges.append((u, v, par, inport, upport))

    def header(self):
        out = ["net %d %d" % (len(self.kind), self.cap)]
        for u, v, par, ip, op in self.edges:
            out.append("edge %d %d %d" % (u, v, 1 if par else 0))
        for v, its in sorted(self.srcitems.items()):
            out.append("src %d %d %s" % (v, len(its), " ".join(map(str, its))))
        for (v, e, tup), it in sorted(self.outf.items()):
            out.append("of %d %d %d %s %d" % (v, e, len(tup), " ".join(map(str, tup)), it))
        return out


def net_script(spec, model, impl, bufsize):
    nm = NetMap(spec, model, bufsize)
    hooks = impl["hooks"]
    out, notes = [], []
    def emit(s, ev):
        out.append(s); notes.append(ev)
    nid = [0]
    def newid():
        nid[0] += 1
        return nid[0]
    node_by_name = {nm.name[v]: v for v in range(len(nm.kind))}
    N = len(nm.kind)
    ct = {v: "idle" for v in range(N)}          # idle | recv | hand (round ended, hand-off not yet seen) | done
    round_left = {v: 0 for v in range(N)}
    saw_closed = {v: False for v in range(N)}
    handed = {v: [] for v in range(N)}          # temp dirs in hand-off order
    pending_hand = {v: 0 for v in range(N)}     # hand-offs already put into the script ahead of run.task_received
    popped = {v: 0 for v in range(N)}
    exited = {v: set() for v in range(N)}
    sending = {v: None for v in range(N)}       # {"perm": [...], "done": k}
    finished = {v: False for v in range(N)}
    recv_op, send_op = {}, {}
    dir_node = {}
    is_src = lambda v: nm.kind[v] in ("src", "psrc", "feeder")
    srcsent = {v: 0 for v in range(N)}

    def lookahead_ports(idx, gid, names_begin, stop_names):
        res = []
        for ev2 in hooks[idx:]:
            if ev2[4] != gid:
                continue
            if ev2[1] in names_begin:
                e = nm.edge_of_inport.get(ev2[3][0])
                if e is not None and e not in res:
                    res.append(e)
            elif ev2[1] in stop_names:
                break
        return res

    def begin_round(v, idx, gid, ev):
        perm = lookahead_ports(idx, gid, ("port.recv_begin", "pport.recv_begin"), ("ct.round_received",))
        perm = [e for e in perm if e in nm.ins[v]]
        rest = [e for e in nm.ins[v] if e not in perm]
        perm += [e for e in rest if not nm.edges[e][2]] + [e for e in rest if nm.edges[e][2]]
        emit("do round %d %d %s" % (v, len(perm), " ".join(map(str, perm))), ev)
        ct[v] = "recv"; saw_closed[v] = False

    def flush_hand(v, ev):
        if ct[v] == "hand":
            emit("do hand %d" % v, ev); pending_hand[v] += 1; ct[v] = "idle"

    def source_item(v, idx, gid, ev):
        """a source is about to send its next item: the steps that precede the sends"""
        emit("do round %d 0" % v, ev); emit("do hand %d" % v, ev); emit("do exit %d 0" % v, ev)
        perm = []
        for ev2 in hooks[idx:]:
            if ev2[4] != gid:
                continue
            if ev2[1] in ("port.send", "pport.send"):
                e = nm.edge_of_inport.get(ev2[3][0])
                if e is not None and nm.edges[e][0] == v:
                    if e in perm:
                        break
                    perm.append(e)
            elif ev2[1] in ("port.close_connection", "pport.close_connection"):
                break
        perm += [e for e in nm.outs[v] if e not in perm]
        emit("do pop %d %d %s" % (v, len(perm), " ".join(map(str, perm))), ev)
        sending[v] = {"perm": perm, "done": 0}

    def end_send_if_done(v, ev):
        s = sending[v]
        if s is not None and s["done"] >= len(s["perm"]):
            emit("do endsend %d" % v, ev); sending[v] = None
            if is_src(v):
                srcsent[v] += 1

    def finish(v, ev):
        if finished[v]:
            return
        if is_src(v) or nm.kind[v] == "solo":
            if ct[v] != "done":
                emit("do round %d 0" % v, ev); ct[v] = "done"
        elif ct[v] == "recv":
            emit("do endround %d" % v, ev); ct[v] = "done"
        emit("do fin %d" % v, ev); finished[v] = True

    for idx, ev in enumerate(hooks):
        ts, name, n, keys, gid = ev
        if name in ("port.recv_begin", "pport.recv_begin"):
            e = nm.edge_of_inport.get(keys[0])
            if e is None:
                continue
            v = nm.edges[e][1]
            flush_hand(v, ev)
            if ct[v] == "idle":
                begin_round(v, idx, gid, ev)
            op = newid(); recv_op[gid] = (op, v, e)
            emit("begin %d recv %d" % (op, v), ev)
        elif name in ("port.recv", "pport.recv", "port.recv_closed", "pport.recv_closed"):
            if gid not in recv_op:
                continue
            op, v, e = recv_op.pop(gid)
            emit("end %d" % op, ev)
            if name.endswith("closed"):
                emit("chk 20 saw %d" % v, ev); saw_closed[v] = True
            else:
                it = nm.I("f" if name.startswith("port.") else "p", keys[1])
                emit("chk 21 cur %d %d %d" % (v, e, it), ev)
        elif name == "ct.round_received":
            v = node_by_name.get(keys[0])
            if v is None:
                continue
            if nm.kind[v] == "solo":
                emit("do round %d 0" % v, ev)
            else:
                emit("do endround %d" % v, ev)
            emit("chk 22 ct %d 2" % v, ev)
            ct[v] = "hand"
        elif name == "run.task_received":
            v = node_by_name.get(keys[0])
            if v is None:
                continue
            if pending_hand[v] > 0:
                pending_hand[v] -= 1
            else:
                emit("do hand %d" % v, ev); ct[v] = "idle"
            handed[v].append(keys[1]); dir_node[keys[1]] = v
        elif name in ("exec.released", "exec.skip"):
            d = keys[0]
            v = dir_node.get(d)
            if v is None or d in exited[v]:
                continue
            i = handed[v].index(d) - popped[v]
            emit("do exit %d %d" % (v, i), ev); exited[v].add(d)
        elif name == "run.head_done":
            v = node_by_name.get(keys[0])
            if v is None:
                continue
            perm = []
            for ev2 in hooks[idx + 1:]:
                if ev2[4] != gid:
                    continue
                if ev2[1] == "port.send":
                    e = nm.edge_of_inport.get(ev2[3][0])
                    if e is not None and e not in perm:
                        perm.append(e)
                elif ev2[1] in ("run.head_done", "run.task_received", "port.close_connection"):
                    break
            perm = [e for e in perm if e in nm.outs[v]]
            perm += [e for e in nm.outs[v] if e not in perm]
            emit("do pop %d %d %s" % (v, len(perm), " ".join(map(str, perm))), ev)
            popped[v] += 1
            sending[v] = {"perm": perm, "done": 0}
            end_send_if_done(v, ev)
        elif name in ("port.send", "pport.send"):
            e = nm.edge_of_inport.get(keys[0])
            if e is None:
                continue
            v = nm.edges[e][0]
            if is_src(v) and sending[v] is None:
                source_item(v, idx, gid, ev)
            op = newid(); send_op[gid] = (op, v, e)
            emit("begin %d send %d" % (op, v), ev)
        elif name in ("port.sent", "pport.sent"):
            if gid not in send_op:
                continue
            op, v, e = send_op.pop(gid)
            emit("end %d" % op, ev)
            if sending[v] is not None:
                sending[v]["done"] += 1
            end_send_if_done(v, ev)
        elif name in ("port.close_connection", "pport.close_connection"):
            e = nm.edge_of_inport.get(keys[0])
            if e is not None:
                finish(nm.edges[e][0], ev)
            else:
                # a port of the sink: the closing process is named by the out-port
                pn = keys[1].rsplit(".", 1)[0]
                v = node_by_name.get(pn)
                if v is not None and not (is_src(v)):
                    finish(v, ev)
    return nm, nm.header() + out, notes, len(nm.header())


def net_problems(spec, model, impl, completed):
    if not net_applicable(spec):
        return [], {"net_verdict": "not-applicable"}
    import os as _os
    bufsize = spec.bufsize if spec.bufsize is not None else 128
    nm, lines, notes, nh = net_script(spec, model, impl, bufsize)
    res = run_rdriver("net", "\n".join(lines) + "\n")
    probs = []
    info = {"net_verdict": res["verdict"], "net_events": len(notes), "net_nodes": len(nm.kind), "net_edges": len(nm.edges)}
    if res["verdict"] == "REJECT":
        i = res["line"]
        ev = notes[i] if i < len(notes) else None
        probs.append(("replay-net", "the process network (NetA.step with its histories) has no execution that explains the event log: %s at log event %s; script line %r" % (
            res["why"], ev and (ev[1], ev[2], ev[3][:2]), lines[nh + i] if nh + i < len(lines) else None)))
        return probs, info
    if res["verdict"] != "ACCEPT":
        probs.append(("replay-error", "rdriver net: %s" % res.get("detail")))
        return probs, info
    if res["unpredicted"]:
        probs.append(("replay-net", "the replayed network formed a task the reference evaluator does not predict: %s" % res["unpredicted"][:3]))
    if completed:
        if res["pending"]:
            probs.append(("replay-net", "run completed but %d channel operations of the replayed network never happened" % len(res["pending"])))
        crt = {}
        for t in res["lines"]:
            if t[0] == "crt":
                v = int(t[1])
                body = " ".join(t[2:])
                crt[v] = [[int(x) for x in part.split()] for part in body.split("|")] if body.strip() else []
                crt[v] = [x for x in crt[v] if x] if crt[v] != [[]] else []
            elif t[0] == "edge":
                e = int(t[1]); snt = int(t[3]); rcv = int(t[5])
                want = len(nm.pred[nm.edges[e][0]])
                if snt != want or rcv != want:
                    probs.append(("replay-net", "edge %s: %d sent, %d received, the reference evaluator predicts %d" % (nm.edges[e][3], snt, rcv, want)))
        for v in range(len(nm.kind)):
            if nm.kind[v] in ("proc", "solo") and crt.get(v, []) != nm.pred[v] and nm.kind[v] == "proc":
                probs.append(("replay-net", "process %s created the tasks %s (items by id, in creation order); the reference evaluator predicts %s" % (
                    nm.name[v], crt.get(v), nm.pred[v])))
    return probs, info


# ------------------------------------------------------------------ fan-in ports (and the sink)

def fanin_ports(spec, model):
    """in-ports with several upstreams: (qualified port name, [(upstream label, [items it sends, in order])], parameter port?)"""
    byproc = {}
    for t in model["tasks"]:
        byproc.setdefault(t["proc"], []).append(t)
    def outputs(u, upport):
        n = spec.nodes[u]
        if n[0] == "SRC":
            return list(n[2])
        if n[0] == "PSRC":
            return list(n[2])
        if n[0] == "PROC":
            out = []
            for t in byproc.get(n[1].name, []):
                if t["status"] in ("run", "skip") and t.get("emitted", True):
                    for port, st, path in t["outs"]:
                        if port == upport:
                            out.append(path)
            return out
        return None
    res = []
    for i, n in enumerate(spec.nodes):
        if n[0] != "PROC":
            continue
        for port, ups in n[1].ins:
            if len(ups) >= 2:
                plans = [(u, outputs(u, upport)) for u, upport in ups]
                if all(p is not None for _, p in plans):
                    # only a process whose single port this is consumes everything that arrives (otherwise the shortest
                    # of its streams decides how many sets are complete)
                    single = len(n[1].ins) == 1 and not n[1].pars
                    res.append((n[1].name + "." + port, plans, False, single))
    return res


def sink_port(spec, model, hooks):
    """the sink's file in-port: every out-port nobody consumes is connected to it (reconnectDeadEndConnections)"""
    if spec.runto is not None or any(n[0] not in ("SRC", "PSRC", "PROC") for n in spec.nodes):
        return None
    name = None
    for ts, ev, n, keys, gid in hooks:
        if ev in ("port.send", "port.recv", "port.recv_closed", "port.close_connection") and keys and keys[0].endswith(".sink_in"):
            name = keys[0]
            break
    if name is None:
        return None
    consumed = set()
    for n in spec.nodes:
        if n[0] == "PROC":
            for port, ups in n[1].ins:
                for u, upport in ups:
                    consumed.add((u, upport))
    byproc = {}
    for t in model["tasks"]:
        byproc.setdefault(t["proc"], []).append(t)
    plans = []
    for i, n in enumerate(spec.nodes):
        if n[0] == "SRC" and (i, "out") not in consumed:
            plans.append((n[1] + ".out", list(n[2])))
        if n[0] == "PROC":
            if n[1].stream_outs or n[1].join:
                return None
            for port, pat in n[1].outs:
                if (i, port) not in consumed:
                    out = []
                    for t in byproc.get(n[1].name, []):
                        if t["status"] in ("run", "skip") and t.get("emitted", True):
                            out += [path for p2, st, path in t["outs"] if p2 == port]
                    plans.append((n[1].name + "." + port, out))
    if not plans:
        return None
    return name, plans


def port_script(inport, plans, hooks, is_param=False):
    """cap is set to the total number of items: the capacity of the channel is exercised by the network replay on
    merge-free edges; here the order per upstream, exactly-once delivery and the closing protocol are replayed"""
    items = {}
    sender_of = {}
    lines = []
    total = sum(len(p) for _, p in plans)
    for r, (u, paths) in enumerate(plans):
        ids = []
        for q in paths:
            k = os.path.normpath(q) if not is_param else q
            it = items.setdefault((r, k, len([x for x in ids if x[1] == k])), len(items))
            ids.append((it, k))
            sender_of.setdefault(k, []).append((r, it))
        lines.append("plan %d %d %s" % (r, len(ids), " ".join(str(i) for i, _ in ids)))
    header = ["port %d %d" % (len(plans), max(1, total))] + lines
    out, notes = [], []
    pre = "pport." if is_param else "port."
    sent_count, recv_count = {}, {}
    closed = 0
    for ev in hooks:
        ts, name, n, keys, gid = ev
        if not name.startswith(pre) or not keys or keys[0] != inport:
            continue
        kind = name[len(pre):]
        if kind in ("send", "recv"):
            k = os.path.normpath(keys[1]) if not is_param else keys[1]
            cands = sender_of.get(k)
            if not cands:
                out.append("chk 30 last 99999 0"); notes.append(ev)      # an item no upstream was to send
                continue
            cnt = sent_count if kind == "send" else recv_count
            j = cnt.get(k, 0); cnt[k] = j + 1
            r, it = cands[min(j, len(cands) - 1)]
            if kind == "send":
                out.append("do send %d" % r); notes.append(ev)
            else:
                out.append("do recv %d" % r); notes.append(ev)
                out.append("chk 31 last %d %d" % (r, it)); notes.append(ev)
        elif kind == "close_connection":
            # the remote is named by its out-port; upstream order = order of the plans
            rn = keys[1]
            r = None
            for idx, (u, _) in enumerate(plans):
                if isinstance(u, str) and (rn.startswith(u + ".") or rn == u):
                    r = idx
            if r is None:
                continue
            out.append("do close %d" % r); notes.append(ev)
        elif kind == "recv_closed":
            out.append("do seeclosed"); notes.append(ev)
    return header, out, notes


def port_problems(spec, model, impl, completed):
    probs, info = [], {"port_replays": 0, "port_events": 0}
    names = {i: (n[1].name if n[0] == "PROC" else n[1]) for i, n in enumerate(spec.nodes) if n[0] in ("SRC", "PSRC", "PROC")}
    todo = [(inport, [(names.get(u, str(u)), p) for u, p in plans], is_param, single) for inport, plans, is_param, single in fanin_ports(spec, model)]
    sk = sink_port(spec, model, impl["hooks"])
    if sk is not None:
        todo.append((sk[0], sk[1], False, True))
        info["sink_replays"] = 1
    # downstream of a fan-in the order in which an upstream produces its items depends on arrival order at the merge: there
    # the order of each upstream's own sends (from the log) is the plan, and the prediction is compared as a multiset
    merged = any(len(ups) >= 2 for n in spec.nodes if n[0] == "PROC" for port, ups in n[1].ins)
    for inport, plans, is_param, single in todo:
        if merged:
            seen_sends = {}
            pre = "pport." if is_param else "port."
            label_of = {}
            for lab, pl in plans:
                for q in pl:
                    label_of[os.path.normpath(q) if not is_param else q] = lab
            for ts, name, n, keys, gid in impl["hooks"]:
                if name == pre + "send" and keys and keys[0] == inport:
                    k = os.path.normpath(keys[1]) if not is_param else keys[1]
                    if k in label_of:
                        seen_sends.setdefault(label_of[k], []).append(keys[1])
            newplans = []
            for lab, pl in plans:
                obs = seen_sends.get(lab, [])
                if completed and sorted(os.path.normpath(x) for x in obs) != sorted(os.path.normpath(x) for x in pl):
                    probs.append(("replay-port", "port %s: upstream %s sent %s, the reference evaluator predicts the items %s" % (inport, lab, obs[:6], pl[:6])))
                newplans.append((lab, obs))
            plans = newplans
        header, out, notes = port_script(inport, plans, impl["hooks"], is_param)
        res = run_rdriver("port", "\n".join(header + out) + "\n")
        info["port_replays"] += 1; info["port_events"] += len(out)
        info.setdefault("port_verdict", {})
        info["port_verdict"] = res["verdict"] if info["port_verdict"] in ({}, "ACCEPT") else info["port_verdict"]
        if res["verdict"] == "REJECT":
            i = res["line"]
            ev = notes[i] if i < len(notes) else None
            probs.append(("replay-port", "the fan-in port machine (Port.step) for in-port %s has no execution that explains the event log: %s at log event %s; script line %r" % (
                inport, res["why"], ev and (ev[1], ev[2], ev[3][:2]), out[i] if i < len(out) else None)))
        elif res["verdict"] != "ACCEPT":
            probs.append(("replay-error", "rdriver port: %s" % res.get("detail")))
        elif completed and single:
            for t in res["lines"]:
                if t[0] == "closed" and (t[1] != "1" or t[3] != "1"):
                    probs.append(("replay-port", "run completed but the replayed port %s is not closed / its receiver has not seen the end (%s)" % (inport, " ".join(t))))
                if t[0] == "sender":
                    want = len(plans[int(t[1])][1])
                    if int(t[3]) != want or int(t[5]) != want:
                        probs.append(("replay-port", "port %s: upstream %s sent %s and the receiver took %s of its %d items" % (inport, plans[int(t[1])][0], t[3], t[5], want)))
    return probs, info
