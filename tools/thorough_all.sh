#!/bin/bash
# runs the thorough tier of every check, printing the last line and the wall time of each
cd "$(dirname "$0")/.."
./run.sh setup | tail -1
for c in C01 C02 C03 C04 C05 C06 C07 C08 C09 C10 C11 C12 C13 C14 C15 C16 C17 C18 C19 C20; do
  s=$(date +%s)
  ./run.sh thorough $c 2>&1 | grep -E "VIOLATION|KNOWN-FINDING|thorough:" | tail -6
  echo "   [$c took $(( $(date +%s) - s )) s]"
done
