#!/bin/bash
# usage: tools/seedtest.sh <seeded-dir> <tier> Cxx [Cyy ...]   -- applies seeded/<dir>/patch.diff to /repo, runs the checks, undoes it
d=/verif/seeded/$1; tier=$2; shift 2
cd /repo && git apply --check $d/patch.diff || { echo "patch does not apply"; exit 2; }
git apply $d/patch.diff
trap 'git -C /repo checkout -- . ; git -C /repo clean -fdq -- . 2>/dev/null; rm -rf "$VERIF_EVIDENCE_DIR"' EXIT
cd /verif
export VERIF_EVIDENCE_DIR=$(mktemp -d /tmp/seedev.XXXXXX)
for c in "$@"; do
  out=$(./run.sh $tier $c 2>&1 | grep -v "^make\|^COQ\|^$")
  echo "$out" | grep -E "VIOLATION|$c $tier:" | head -4
  echo "$out" | grep "violation:" | head -2 | cut -c1-400
done
