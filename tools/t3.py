# T3: workflow specs, their rendering for the real library (wfrun) and for the Coq model (driver wfeval),
# runners, observables and the generic comparison.
import os, random, re, shutil, signal, subprocess, tempfile, time
from concurrent.futures import ThreadPoolExecutor
from tools import vlib
from tools.vlib import hx, unhx

SCRATCH_PARENT = os.environ.get("VERIF_SCRATCH", "/tmp")


# ------------------------------------------------------------------ spec construction

class Proc:
    def __init__(self, name, kind="cattok", tok=None, ins=(), pars=(), outs=(("out", None),), cores=1, fail="none", failkey="",
                 extra=(), gofunc=False, sleep=None, stream_outs=(), join=(), exts=None, rdv=0, pre="", pause=None):
        self.name, self.kind, self.tok = name, kind, tok or ("tok_" + name)
        self.ins = list(ins)          # [(port, [(upnode, upport), ...])]
        self.pars = list(pars)        # [(port, ("U", node) | ("V", [vals]))]
        self.outs = list(outs)        # [(port, pattern or None)]
        self.cores, self.fail, self.failkey = cores, fail, failkey
        self.extra, self.gofunc, self.sleep = list(extra), gofunc, sleep
        self.stream_outs, self.join = set(stream_outs), dict(join)   # join: port -> separator
        self.exts = exts or {}
        self.rdv = rdv
        self.pre = pre                # extra shell text placed before the body (rendezvous etc.)
        self.pause = pause            # e.g. "sleep 0.2": the body of a cattok command writes in two pieces with this pause in between

    def key_pattern(self):
        k = self.name
        for port, _ in self.ins:
            k += " {i:%s%s}" % (port, ("|join:" + self.join[port]) if port in self.join else "")
        for port, _ in self.pars:
            k += " {p:%s}" % port
        return k

    def pattern(self):
        key = self.key_pattern()
        def iph(port):
            if port not in self.join:
                return "{i:%s}" % port
            sep = self.join[port]
            ph = "{i:%s|join:%s}" % (port, sep)
            return ph if sep == " " else '$(echo "%s" | tr "%s" " ")' % (ph, sep)
        ins = " ".join(iph(port) for port, _ in self.ins)
        line = self.tok + "".join(" {p:%s}" % port for port, _ in self.pars)
        if self.kind == "write":
            body = "echo " + line
        elif self.kind == "cat":
            body = ("cat " + ins) if ins else "printf ''"
        else:
            body = ("cat " + ins + " && " if ins else "") + (self.pause + " && " if self.pause else "") + "echo " + line
        def oph(port):
            ext = self.exts.get(port)
            return "{%s:%s%s}" % ("os" if port in self.stream_outs else "o", port, ("|." + ext) if ext else "")
        parts = ['echo "S %s" $(date +%%s%%N) >> "$VERIF_TRACE"' % key]
        if self.pre:
            parts.append(self.pre)
        case = lambda act: 'case "%s" in *%s*) %s;; esac' % (key, self.failkey, act)
        first = oph(self.outs[0][0]) if self.outs else "/dev/null"
        last = oph(self.outs[-1][0]) if self.outs else "/dev/null"
        if self.fail == "before":
            parts.append(case("exit 1"))
        if self.fail == "partial":
            parts.append(case("printf PARTIAL > %s; exit 1" % first))
        if self.fail == "signal":
            parts.append(case("printf PARTIAL > %s; kill -9 $$" % first))
        if self.sleep:
            parts.append(self.sleep)
        for port, _ in self.outs:
            parts.append("( %s ) > %s" % (body, oph(port)))
        if not self.outs:
            parts.append("( %s ) > /dev/null" % body)
        for x in self.extra:
            d = os.path.dirname(x)
            parts.append(("mkdir -p %s && " % d if d else "") + "echo %s > %s" % (self.tok, x))
        if self.fail == "afterfull":
            parts.append(case("exit 1"))
        if self.fail == "omit":
            parts.append(case("rm -f %s" % last))
        parts.append('echo "E %s" $(date +%%s%%N) >> "$VERIF_TRACE"' % key)
        # joined with && so that a failing piece (a command killed by SIGPIPE, a missing input) fails the task
        return " && ".join(parts)

    def line(self):
        s = "PROC %s %d %s %s %s %s %s" % (hx(self.name), self.cores, self.kind, hx(self.tok), self.fail, hx(self.failkey), hx(self.pattern()))
        s += " %d" % len(self.ins)
        for port, ups in self.ins:
            s += " %s %d" % (hx(port), len(ups)) + "".join(" %d %s" % (u, hx(up)) for u, up in ups)
        s += " %d" % len(self.pars)
        for port, src in self.pars:
            if src[0] == "U":
                s += " %s U %d" % (hx(port), src[1])
            elif src[0] == "N":
                s += " %s N" % hx(port)
            else:
                s += " %s V %d" % (hx(port), len(src[1])) + "".join(" " + hx(v) for v in src[1])
        s += " %d" % len(self.outs)
        for port, pat in self.outs:
            s += " %s %s" % (hx(port), hx(pat) if pat is not None else "~")
        s += " %d" % len(self.extra) + "".join(" " + hx(x) for x in self.extra)
        s += " %d" % (1 if self.gofunc else 0)
        return s


class CommentProc(Proc):
    """a process whose command is a multi-line script that begins with a comment line"""
    def pattern(self):
        return "# generated script for " + self.name + "\n" + Proc.pattern(self)


class RawProc(Proc):
    """a process whose command pattern is given literally"""
    def __init__(self, name, rawpat, **kw):
        Proc.__init__(self, name, **kw)
        self.rawpat = rawpat

    def pattern(self):
        return self.rawpat


class Spec:
    def __init__(self, maxtasks=4, bufsize=None):
        self.max, self.bufsize = maxtasks, bufsize
        self.nodes = []       # ("SRC", name, paths) | ("PSRC", name, vals) | ("S2S", name, up, upport) | ("PROC", Proc) | ("RAW", line)
        self.files = {}       # pre-existing files: path -> content
        self.runto = None
        self.runto_mode = "N"     # N: RunTo(names)  R: RunToRegex  P: RunToProcs
        self.log = None           # log level the program initialises before creating the workflow (wfrun only; the reference model has no logs)

    def add(self, node):
        self.nodes.append(node)
        return len(self.nodes) - 1

    def src(self, name, paths):
        return self.add(("SRC", name, list(paths)))

    def psrc(self, name, vals):
        return self.add(("PSRC", name, list(vals)))

    def s2s(self, name, up, upport="out"):
        return self.add(("S2S", name, up, upport))

    def proc(self, p):
        return self.add(("PROC", p))

    def raw(self, line):
        return self.add(("RAW", line))

    def text(self, with_files=True):
        out = ["MAX %d" % self.max]
        if self.log:
            out.append("LOG " + self.log)
        for n in self.nodes:
            if n[0] == "SRC":
                out.append("SRC %s" % hx(n[1]) + "".join(" " + hx(p) for p in n[2]))
            elif n[0] == "PSRC":
                out.append("PSRC %s" % hx(n[1]) + "".join(" " + hx(p) for p in n[2]))
            elif n[0] == "S2S":
                out.append("S2S %s %d %s" % (hx(n[1]), n[2], hx(n[3])))
            elif n[0] == "PROC":
                out.append(n[1].line())
            else:
                out.append(n[1])
        if self.runto is not None:
            out.append("RUNTO " + self.runto_mode + " " + " ".join(str(i) for i in self.runto))
        if with_files:
            for p, c in sorted(self.files.items()):
                out.append("FILE %s %s" % (hx(p), hx(c)))
        return "\n".join(out) + "\n"

    def procs(self):
        return [n[1] for n in self.nodes if n[0] == "PROC"]


# ------------------------------------------------------------------ running the model

class ModelTask:
    pass


def run_model(spec_text):
    r = subprocess.run([os.path.join(vlib.BIN, "driver"), "wfeval"], input=spec_text, text=True, capture_output=True, timeout=300)
    if r.returncode != 0:
        raise RuntimeError("model driver failed: " + r.stderr[-500:])
    res = {"status": None, "failed": False, "tasks": [], "files": {}, "audit": {}}
    for ln in r.stdout.splitlines():
        t = ln.split()
        if t[0] == "STATUS":
            res["status"] = t[1]
            res["failed"] = len(t) > 2 and t[2] == "1"
        elif t[0] == "FILE":
            res["files"][unhx(t[1])] = unhx(t[2])
        elif t[0] == "AUDIT":
            rec, _ = parse_rec(t, 2)
            res["audit"][unhx(t[1])] = rec
        elif t[0] == "TASK":
            i = 1
            def nxt():
                nonlocal i
                v = t[i]; i += 1
                return v
            mt = {"proc": unhx(nxt()), "status": nxt(), "ins": [], "pars": [], "outs": []}
            for _ in range(int(nxt())):
                port = unhx(nxt()); kind = nxt(); n = int(nxt())
                mt["ins"].append((port, kind, [unhx(nxt()) for _ in range(n)]))
            for _ in range(int(nxt())):
                k = unhx(nxt()); v = unhx(nxt())
                mt["pars"].append((k, v))
            for _ in range(int(nxt())):
                port = unhx(nxt()); st = nxt() == "1"; path = unhx(nxt())
                mt["outs"].append((port, st, path))
            mt["content"] = unhx(nxt())
            c = nxt()
            mt["command"] = None if c == "<FAIL>" else unhx(c)
            mt["emitted"] = nxt() == "1"
            mt["key"] = task_key(mt)
            res["tasks"].append(mt)
    return res


def parse_rec(t, i):
    """record serialised by the driver -> normalised dict (the shape audit_norm gives for a real record)"""
    def kv(i):
        n = int(t[i]); i += 1
        d = {}
        for _ in range(n):
            d[unhx(t[i])] = unhx(t[i + 1]); i += 2
        return d, i
    proc = unhx(t[i]); cmd = unhx(t[i + 1]); i += 2
    params, i = kv(i)
    tags, i = kv(i)
    outs, i = kv(i)
    n = int(t[i]); i += 1
    up = {}
    for _ in range(n):
        p = unhx(t[i]); i += 1
        up[p], i = parse_rec(t, i)
    return {"ProcessName": proc, "Command": cmd, "Params": params, "Tags": tags, "OutFiles": outs, "Upstream": up}, i


def audit_norm(rec):
    """a real audit record without IDs and times"""
    return {"ProcessName": rec.get("ProcessName", ""), "Command": rec.get("Command", ""), "Params": rec.get("Params") or {}, "Tags": rec.get("Tags") or {},
            "OutFiles": rec.get("OutFiles") or {}, "Upstream": {p: audit_norm(u) for p, u in (rec.get("Upstream") or {}).items()}}


def task_key(mt):
    k = mt["proc"]
    for port, kind, paths in mt["ins"]:
        k += " " + ",".join(paths)
    for _, v in mt["pars"]:
        k += " " + v
    return k


def norm_trace_key(key):
    """the traced key has ../ prefixed to every relative in-path (and to every member of a joined port);
    streamed inputs appear under their FIFO name"""
    key = re.sub(r"(^|[ ,:])\.\./", r"\1", key)
    return re.sub(r"\.fifo(?=$|[ ,:])", "", key)


def model_keys(spec, model, statuses=("run",)):
    """the trace keys the model predicts, with the join separators of the spec"""
    procs = {p.name: p for p in spec.procs()}
    out = []
    for t in model["tasks"]:
        if t["status"] not in statuses:
            continue
        p = procs.get(t["proc"])
        k = t["proc"]
        for port, kind, paths in t["ins"]:
            sep = p.join.get(port, ",") if p else ","
            k += " " + sep.join(paths)
        for _, v in t["pars"]:
            k += " " + v
        out.append(k)
    return out


# ------------------------------------------------------------------ running the implementation

def snapshot_dir(d):
    snap = {}
    for root, dirs, files in os.walk(d):
        for f in files + dirs:
            p = os.path.join(root, f)
            rel = os.path.relpath(p, d)
            try:
                st = os.lstat(p)
            except FileNotFoundError:
                continue
            import stat as S
            if S.S_ISDIR(st.st_mode):
                snap[rel] = ("d", None, st.st_ino, st.st_mtime_ns)
            elif S.S_ISFIFO(st.st_mode):
                snap[rel] = ("p", None, st.st_ino, st.st_mtime_ns)
            else:
                try:
                    data = open(p, "rb").read().decode("latin-1")
                except Exception:
                    data = None
                snap[rel] = ("f", data, st.st_ino, st.st_mtime_ns)
    return snap


class Scratch:
    """a scratch area: work/ is the workflow's working directory; removed on close"""
    def __init__(self):
        self.root = tempfile.mkdtemp(prefix="vt3_", dir=SCRATCH_PARENT)
        self.work = os.path.join(self.root, "work")
        os.makedirs(self.work)

    def plant(self, files):
        for p, c in files.items():
            full = os.path.join(self.work, p) if not p.startswith("/") else p
            os.makedirs(os.path.dirname(full) or self.work, exist_ok=True)
            with open(full, "w", encoding="latin-1") as f:
                f.write(c)

    def close(self):
        shutil.rmtree(self.root, ignore_errors=True)


def other_device_dir():
    """a fresh directory on a file system other than the scratch area's (tmpfs under /dev/shm), or None"""
    for cand in ("/dev/shm",):
        try:
            if os.stat(cand).st_dev != os.stat(SCRATCH_PARENT).st_dev and os.access(cand, os.W_OK):
                return tempfile.mkdtemp(prefix="vt3x_", dir=cand)
        except OSError:
            pass
    return None


def watched_run(sc, spec, watch, full_size, kill_on_partial=False, timeout=120):
    """one run of the real library in sc.work while an observer polls the final path `watch` (relative to sc.work): records the
    smallest size seen there while the program was alive; with kill_on_partial the process group is killed (SIGKILL) at the
    first moment the path exists with fewer than full_size bytes"""
    import subprocess, signal, time
    specp = os.path.join(sc.root, "SPEC")
    open(specp, "w").write(spec.text(with_files=False))
    env = dict(os.environ, VERIF_TRACE=os.path.join(sc.root, "trace"), VERIF_RDV=os.path.join(sc.root, "rdv"))
    env.pop("SCIPIPE_VERIF_LOG", None)
    os.makedirs(env["VERIF_RDV"], exist_ok=True)
    full = os.path.join(sc.work, watch)
    p = subprocess.Popen([os.path.join(vlib.BIN, "wfrun"), specp], cwd=sc.work, env=env, stdout=subprocess.PIPE, stderr=subprocess.STDOUT, start_new_session=True)
    smallest, killed, polls = None, False, 0
    t0 = time.time()
    while p.poll() is None and time.time() - t0 < timeout:
        try:
            sz = os.stat(full).st_size
            polls += 1
            if smallest is None or sz < smallest:
                smallest = sz
            if kill_on_partial and sz < full_size:
                os.killpg(p.pid, signal.SIGKILL)
                killed = True
                break
        except OSError:
            pass
        time.sleep(0.0003)
    timed_out = p.poll() is None and not killed
    if timed_out:
        os.killpg(p.pid, signal.SIGKILL)
    out = p.communicate()[0].decode("latin-1")
    try:
        final_size = os.stat(full).st_size
    except OSError:
        final_size = None
    return {"rc": p.returncode, "smallest_seen": smallest, "killed": killed, "timed_out": timed_out, "final_size": final_size, "out": out[-400:], "polls": polls}


def run_impl(sc, spec, env=None, timeout=60, crash=None, yield_seed=None, binary="wfrun", gomaxprocs=None, kill_after=None, strace_kill=None, hooks_on=True, strace_fault=None):
    """one run of the real library in sc.work; returns observables"""
    specp = os.path.join(sc.root, "SPEC")
    open(specp, "w").write(spec.text(with_files=False))
    trace = os.path.join(sc.root, "trace")
    hooks = os.path.join(sc.root, "hooks.log")
    for p in (hooks,):
        if os.path.exists(p):
            os.remove(p)
    e = dict(os.environ, VERIF_TRACE=trace, SCIPIPE_VERIF_LOG=hooks, VERIF_RDV=os.path.join(sc.root, "rdv"))
    os.makedirs(e["VERIF_RDV"], exist_ok=True)
    if spec.bufsize is not None:
        e["SCIPIPE_BUFSIZE"] = str(spec.bufsize)
    if crash:
        e["SCIPIPE_VERIF_CRASH"] = crash
    if yield_seed is not None:
        e["SCIPIPE_VERIF_YIELD"] = "%d:%d" % yield_seed
    if (strace_kill or strace_fault) and not gomaxprocs:
        # strace counts `when=n` per traced thread: with one P the Go runtime issues the file writes from one thread (observed)
        gomaxprocs = 1
    if gomaxprocs:
        e["GOMAXPROCS"] = str(gomaxprocs)
    if env:
        e.update(env)
    if not hooks_on:
        for k in ("SCIPIPE_VERIF_LOG", "SCIPIPE_VERIF_CRASH", "SCIPIPE_VERIF_YIELD"):
            e.pop(k, None)
    ntrace0 = len(open(trace).read().splitlines()) if os.path.exists(trace) else 0
    t0 = time.time()
    argv = [os.path.join(vlib.BIN, binary), specp]
    if strace_kill:
        # fault injection without a hook: SIGKILL at the n-th write(2) to one file (strace -P <file> -e inject=write:signal=SIGKILL:when=n)
        path, when = strace_kill
        argv = ["strace", "-f", "-o", "/dev/null", "-P", os.path.join(sc.work, path), "-e", "trace=write", "-e", "inject=write:signal=SIGKILL:when=%d" % when] + argv
    if strace_fault:
        # fault injection without a hook: the n-th write(2) to one file fails with the given error (disk full, quota, I/O error)
        path, err, when = strace_fault
        argv = ["strace", "-f", "-o", "/dev/null", "-P", os.path.join(sc.work, path), "-e", "trace=write", "-e", "inject=write:error=%s:when=%d" % (err, when)] + argv
    p = subprocess.Popen(argv, cwd=sc.work, env=e, stdout=subprocess.PIPE, stderr=subprocess.PIPE,
                         start_new_session=True, text=True)
    timed_out = False
    killed = False
    try:
        if kill_after is not None:
            try:
                out, err = p.communicate(timeout=kill_after)
            except subprocess.TimeoutExpired:
                killed = True
                try:
                    os.killpg(p.pid, signal.SIGKILL)
                except ProcessLookupError:
                    pass
                out, err = p.communicate()
        else:
            out, err = p.communicate(timeout=timeout)
    except subprocess.TimeoutExpired:
        timed_out = True
        try:
            os.killpg(p.pid, signal.SIGKILL)
        except ProcessLookupError:
            pass
        out, err = p.communicate()
    # make sure nothing of the group survives (commands started by a killed workflow)
    try:
        os.killpg(p.pid, signal.SIGKILL)
    except (ProcessLookupError, PermissionError):
        pass
    res = {"rc": p.returncode, "timed_out": timed_out, "killed": killed, "stdout": out, "stderr": err, "wall": time.time() - t0}
    res["returned"] = "RUN-RETURNED" in out
    snap_at_return = {}
    for ln in out.splitlines():
        t = ln.split()
        if t and t[0] == "SNAP":
            snap_at_return[unhx(t[1])] = t[2]
    res["snap_at_return"] = snap_at_return
    tr = []
    if os.path.exists(trace):
        for ln in open(trace).read().splitlines()[ntrace0:]:
            m = re.match(r"([SE]) (.*) (\d+)$", ln)
            if m:
                tr.append((m.group(1), norm_trace_key(m.group(2)), int(m.group(3))))
    res["trace"] = tr
    res["hooks"] = []
    if os.path.exists(hooks):
        for ln in open(hooks).read().splitlines():
            t = ln.split(" ")
            if len(t) >= 4 and t[3].startswith("g"):
                # (timestamp ns, point, n-th hit of the point, keys, goroutine id)
                res["hooks"].append((int(t[0]), t[1], int(t[2]), t[4:], int(t[3][1:])))
    try:
        res["log_tail"] = open(os.path.join(sc.work, "wfrun.log"), errors="replace").read()[-700:]
    except OSError:
        res["log_tail"] = ""
    if not err.strip() and p.returncode not in (0, None):
        # scipipe reports errors through its loggers (stdout / log file), not on stderr
        msg = "\n".join(l for l in out.splitlines() if "ERROR" in l or "panic" in l or "fatal" in l)
        res["stderr"] = (msg or res["log_tail"])[-500:]
    res["fs"] = snapshot_dir(sc.work)
    # what lies beside the working directory (parent-relative and absolute outputs), keyed relative to work/
    outside = {}
    for k, v in snapshot_dir(sc.root).items():
        top = k.split("/")[0]
        if top in ("work", "SPEC", "trace", "hooks.log", "rdv"):
            continue
        outside["../" + k] = v
    res["fs_outside"] = outside
    return res


IGNORED = re.compile(r"^(wfrun\.log|REC\..*|log(/.*)?)$")


def data_files(fs, audit=False, temp=False):
    """regular files of a snapshot that are workflow data (not logs, audit files, recorder output, content of temp dirs)"""
    out = {}
    for p, (kind, data, ino, mt) in fs.items():
        if kind != "f" or IGNORED.match(p):
            continue
        if not temp and any(seg.startswith("_scipipe_tmp") for seg in p.split("/")):
            continue
        if (p.endswith(".audit.json") and not audit) or p.endswith(".audit.json.tmp"):
            continue
        out[p] = data
    return out


def leftovers(fs):
    return sorted(p for p, v in fs.items() if os.path.basename(p).startswith("_scipipe_tmp") or v[0] == "p" or p.endswith(".fifo"))


def started_keys(trace):
    return [k for s, k, t in trace if s == "S"]


def compare_success(spec, model, impl):
    """the generic T3 comparison for a run the model predicts to complete: exit status, file set and bytes, executed tasks"""
    problems = []
    if impl["timed_out"]:
        problems.append(("deadlock-or-hang", "the run did not terminate within the time limit"))
        return problems
    if impl["rc"] != 0 and "all goroutines are asleep - deadlock" in impl["stderr"]:
        problems.append(("deadlock", "the Go runtime reports a deadlock (all goroutines are asleep): Run never returns"))
        return problems
    if impl["rc"] != 0 or not impl["returned"]:
        problems.append(("unexpected-failure", "exit status %s, returned=%s: %s" % (impl["rc"], impl["returned"], impl["stderr"][-300:])))
        return problems
    real = data_files(impl["fs"])
    want = {p: c for p, c in model["files"].items() if not p.startswith("/")}
    if real != want:
        diff = {k: (real.get(k), want.get(k)) for k in set(real) | set(want) if real.get(k) != want.get(k)}
        problems.append(("files-differ", "file set / contents differ from the model (impl, model): %s" % str(dict(list(diff.items())[:4]))[:600]))
    ran = sorted(started_keys(impl["trace"]))
    exp = sorted(model_keys(spec, model))
    if ran != exp:
        problems.append(("tasks-differ", "executed tasks differ: only-impl=%s only-model=%s" % (
            [k for k in ran if k not in exp][:4] + [k for k in set(ran) if ran.count(k) > 1][:2], [k for k in exp if k not in ran][:4])))
    lo = leftovers(impl["fs"])
    if lo:
        problems.append(("leftovers", "temp dirs / FIFOs left after a completed run: %s" % lo[:4]))
    problems += audit_command_problems(model, impl)
    return problems


def audit_command_problems(model, impl):
    """the command recorded next to every output of an executed shell task is the command the model formats"""
    import json
    problems = []
    for t in model["tasks"]:
        if t["status"] != "run" or t["command"] is None:
            continue
        for port, st, path in t["outs"]:
            if st:
                continue
            v = impl["fs"].get(os.path.normpath(path) + ".audit.json")
            if not v or v[0] != "f":
                problems.append(("audit-missing", "no audit file next to %r" % path))
                continue
            try:
                rec = json.loads(v[1])
            except Exception as e:
                problems.append(("audit-invalid-json", "%s.audit.json is not valid JSON: %s" % (path, e)))
                continue
            if rec.get("ProcessName") != t["proc"]:
                problems.append(("audit-process", "%s.audit.json names process %r, expected %r" % (path, rec.get("ProcessName"), t["proc"])))
            if "GOFUNC" not in t and rec.get("Command") != t["command"] and rec.get("Command") != "":
                problems.append(("audit-command", "%s.audit.json records command %r, the model formats %r" % (path, (rec.get("Command") or "")[:200], t["command"][:200])))
    return problems[:3]


# ------------------------------------------------------------------ generic random workflows

def gen_workflow(rng, maxlen=4, allow_params=True, nproc=None, bufsize=None, multi_out=True, subdirs=True, fanin=False, kinds=("write", "cat", "cattok", "cattok")):
    L = rng.choice([0, 1, 2, 3, 3, maxlen])
    sp = Spec(maxtasks=rng.randint(1, 4), bufsize=bufsize if bufsize is not None else rng.choice([1, 2, 3, 128]))
    fileups = []      # (node, port)
    parups = []
    for i in range(rng.randint(1, 2)):
        paths = []
        for j in range(L):
            p = (rng.choice(["", "data/"]) if subdirs else "") + "s%d_%d.txt" % (i, j)
            # an eighth of the source files is empty: `cat` tasks fed by them have (legitimately) empty outputs
            sp.files[p] = "src%d_%d\n" % (i, j) * rng.choice([1, 2, 1, 2, 1, 2, 1, 0])
            paths.append(p)
        fileups.append((sp.src("src%d" % i, paths), "out"))
    if allow_params and rng.random() < 0.5:
        parups.append(sp.psrc("psrc0", ["v%d" % j for j in range(L)]))
    for k in range(nproc or rng.randint(1, 5)):
        idx = len(sp.nodes)
        name = "n%d" % idx
        nin = rng.randint(1, min(2, len(fileups)))
        ups = rng.sample(fileups, nin)
        ins = [("a%d" % n_, [u]) for n_, u in enumerate(ups)]
        if fanin and nin == 1 and len(fileups) > 1 and rng.random() < 0.4:
            other = rng.choice([u for u in fileups if u != ups[0]])
            ins = [("a0", [ups[0], other])]
        pars = []
        if parups and rng.random() < 0.6:
            pars.append(("q0", ("U", parups[0])))
        elif allow_params and rng.random() < 0.2:
            pars.append(("q0", ("V", ["w%d" % j for j in range(L)])))
        nout = rng.randint(1, 2) if multi_out else 1
        outs = []
        for o in range(nout):
            mod = rng.choice(["", "|%.txt", "|basename", "|s/txt/TXT/"])
            pre = rng.choice(["", "out/", "d1/d2/"]) if subdirs else ""
            if pre and mod != "|basename":
                pre = ""
            pat = pre + "{i:a0%s}.%s_o%d" % (mod, name, o) + rng.choice([".txt", ""])
            if pars and rng.random() < 0.7:
                pat += ".{p:q0}"
            if len(ins[0][1]) > 1 or rng.random() < 0.15:
                pat = None if (len(ins) == 1 and len(ins[0][1]) == 1 and rng.random() < 0.5) else pat
            outs.append(("o%d" % o, pat))
        p = Proc(name, kind=rng.choice(kinds), ins=ins, pars=pars, outs=outs, cores=1)
        sp.proc(p)
        for port, _ in outs:
            fileups.append((idx, port))
    return sp


def run_many(fn, args, workers=None):
    with ThreadPoolExecutor(workers or vlib.NPROC) as ex:
        return list(ex.map(fn, args))


# ------------------------------------------------------------------ a standard success-path case

def replay_problems(sp, model, impl, replays, initial_files=None, stats=None, crash=None, leftover_dirs=()):
    """T3-replay: the hook event log of the run, replayed through the transition systems named in `replays`"""
    from tools import replay as rp
    completed = impl["rc"] == 0 and impl.get("returned", False) and not impl["timed_out"]
    problems = []
    stats = stats if stats is not None else {}
    if "slots" in replays:
        p, i = rp.slots_problems(impl, sp.max, completed)
        problems += p; stats.update(i)
    if "tasks" in replays:
        p, i = rp.task_problems(sp, model, impl, dict(sp.files) if initial_files is None else initial_files, crash=crash, leftover_dirs=leftover_dirs)
        problems += p; stats.update(i)
    if "net" in replays:
        p, i = rp.net_problems(sp, model, impl, completed)
        problems += p; stats.update(i)
    if "port" in replays:
        p, i = rp.port_problems(sp, model, impl, completed)
        problems += p; stats.update(i)
    return problems


def success_case(sp, yield_seed=None, timeout=60, gomaxprocs=None, extra_check=None, alts=(), replays=()):
    """run one spec on model and implementation; returns dict with problems (list of (kind, text)).
    alts: specs of the same workflow with another (equally legal) arrival order at a fan-in port; the implementation is
    compared with each and has to agree with one of them."""
    sc = Scratch()
    try:
        sc.plant(sp.files)
        impl = run_impl(sc, sp, yield_seed=yield_seed, timeout=timeout, gomaxprocs=gomaxprocs)
        best = None
        for s_ in [sp] + list(alts):
            model = run_model(s_.text())
            if model["status"] != "done" or model["failed"]:
                problems = [("model-predicts-failure", "generator produced a workflow the model does not complete: %s" % model["status"])]
            else:
                problems = compare_success(s_, model, impl)
            if extra_check:
                problems += extra_check(s_, model, impl, sc)
            rstats = {}
            if replays and model["status"] == "done":
                problems += replay_problems(s_, model, impl, replays, stats=rstats)
            if best is None or len(problems) < len(best[0]):
                best = (problems, model, rstats)
            if not problems:
                break
        problems, model, rstats = best
        hist = [(name, n, "g%d" % gid, keys) for ts, name, n, keys, gid in impl["hooks"]] if any(k.startswith("replay-") for k, _ in problems) else None
        return {"replay": rstats, "history": hist, "spec": sp.text(), "bufsize": sp.bufsize, "problems": problems, "ntasks": sum(1 for t in model["tasks"] if t["status"] == "run"),
                "nskip": sum(1 for t in model["tasks"] if t["status"] == "skip"), "rc": impl["rc"], "stderr": impl["stderr"][-400:], "yield": yield_seed,
                "wall": impl["wall"]}
    finally:
        sc.close()


def report_t3(rep, module, proved, results, what_corr, violation_kinds=None):
    """turn T3 results into VIOLATION lines: each problem is a concrete workflow on which the implementation's
    observables differ from what the property (via the proved model) demands"""
    found = False
    agg = {}
    for r in results:
        for k, v in (r.get("replay") or {}).items():
            if isinstance(v, int):
                agg[k] = agg.get(k, 0) + v
            else:
                agg.setdefault(k, {})
                agg[k][v] = agg[k].get(v, 0) + 1
    if agg:
        rep.notes["history_replay"] = dict(agg, what="hook event logs of the real runs replayed through the extracted transition systems (Replay.replay; verdicts per run, events = script lines)")
    only_replay = lambda r: all(k.startswith("replay-") for k, _ in r["problems"])
    for r in sorted((r for r in results if r["problems"]), key=only_replay):
        if r["problems"]:
            kinds = [k for k, _ in r["problems"]]
            # a history the model cannot take, without any monitor of the property statement firing on the same run, is a
            # broken correspondence: reported, naming the transition system, as no-failing-input-found
            rep.violation("; ".join("%s: %s" % p for p in r["problems"])[:1500], nofail=only_replay(r), replay=
                          {"kind": kinds[0], "spec": r["spec"], "bufsize": r.get("bufsize"), "yield": r.get("yield"), "problems": r["problems"],
                           "case": {k: v for k, v in r.items() if k in ("mode", "point", "second", "kind", "shape", "sizes", "chain", "log_tail", "history", "replay")},
                           "stderr": r.get("stderr"), "how_to_replay": "write spec to a file, plant FILE lines, run build/bin/wfrun SPEC in an empty directory with SCIPIPE_BUFSIZE set"})
            found = True
            if len(rep.violations) >= 5:
                break
    if not proved and not found:
        cc = rep.notes.get("call_cone_changes")
        rep.violation("proof obligations of %s no longer check: %s%s" % (module, rep.notes.get("broken_obligations") or rep.notes.get("open_assumptions"),
                                                                        ("; call cones changed: %s" % cc) if cc else ""),
                      {"kind": "proof-obligation", "theorem_or_correspondence": module + " / " + what_corr, "detail": rep.notes.get("broken_obligations") or rep.notes.get("open_assumptions"),
                       "call_cone_changes": cc}, nofail=True)
    return found


# ------------------------------------------------------------------ crash points

def hook_points(spec, prefixes=("exec.", "fin.", "run.", "wf.", "ct."), sample_others=0, rng=None):
    """one hooked reference run; returns the list of (point, n) hits in the order they happened"""
    sc = Scratch()
    try:
        sc.plant(spec.files)
        impl = run_impl(sc, spec)
        pts = [(name, n) for ts, name, n, keys, gid in impl["hooks"]]
        main = [p for p in pts if p[0].startswith(prefixes)]
        others = [p for p in pts if not p[0].startswith(prefixes)]
        if sample_others and others and rng:
            main += rng.sample(others, min(sample_others, len(others)))
        return main, impl
    finally:
        sc.close()


def atomicity_problems(spec, model, fs, planted=None):
    """C01 on a snapshot: anything at a declared output path is the complete output of a successful command (or was planted);
    nothing else appeared outside the temp dirs"""
    problems = []
    planted = planted if planted is not None else spec.files
    real = data_files(fs)
    declared = {}
    for t in model["tasks"]:
        for port, st, path in t["outs"]:
            if not st:
                declared[os.path.normpath(path)] = t
    for p, c in real.items():
        if p in planted:
            if planted[p] != c:
                problems.append(("planted-modified", "pre-existing file %r changed" % p))
            continue
        t = declared.get(p)
        if t is None:
            if p in {os.path.normpath(x) for x in model["files"]}:
                continue      # additional files of completed tasks
            problems.append(("foreign-file", "file %r appeared outside the temp dirs and is no declared output" % p))
        elif t["status"] not in ("run",):
            problems.append(("output-of-unsuccessful-task", "output %r of task %r (%s) is visible at its final path" % (p, t["key"], t["status"])))
        elif c != t["content"]:
            problems.append(("partial-output", "final path %r holds %r, the complete output is %r" % (p, (c or "")[:40], t["content"][:40])))
    return problems


# ------------------------------------------------------------------ replay of a reported case

def dangling_stream_case(seed, i, kind_label):
    """a streaming out-port that nobody consumes: it dangles in a plain Run, or its only consumer is cut off by RunTo (the sink
    takes the port over in both cases).  The run terminates with exit 0, the producer's commands all ran, no FIFO, no file at
    the stream path and no temp dir is left (shape of finding D19)"""
    rng = random.Random(seed * 472882027 + i)
    sp = Spec(maxtasks=rng.randint(1, 4), bufsize=rng.choice([1, 2, 128]))
    L = rng.randint(1, 4)
    paths = ["ds%d.txt" % j for j in range(L)]
    for p in paths:
        sp.files[p] = ("payload of %s\n" % p) * rng.choice([1, 50, 5000, 20000])      # also more than the 64 KiB pipe buffer
    s = sp.src("src", paths)
    mode = ["dangling", "runto", "dangling-beside-consumer"][i % 3]
    prod = sp.proc(Proc("prod", kind="cat", ins=[("a", [(s, "out")])], outs=[("o", "{i:a}.stream")], stream_outs=["o"]))
    if mode == "runto":
        sp.proc(Proc("cons", kind="cat", ins=[("a", [(prod, "o")])], outs=[("o", "{i:a|basename}.cons")]))
        sp.runto = [prod]
        sp.runto_mode = rng.choice(["N", "R", "P"])
        sp.max += 2 * L
    elif mode == "dangling-beside-consumer":
        # a second, consumed stream beside the dangling one
        p2 = sp.proc(Proc("prod2", kind="cat", ins=[("a", [(s, "out")])], outs=[("o", "{i:a}.stream2")], stream_outs=["o"]))
        sp.proc(Proc("cons2", kind="cat", ins=[("a", [(p2, "o")])], outs=[("o", "{i:a|basename}.cons2")]))
        sp.max += 2 * L
    sc = Scratch()
    try:
        sc.plant(sp.files)
        impl = run_impl(sc, sp, timeout=30)
        problems = []
        if impl["timed_out"] or "all goroutines are asleep" in impl["stderr"]:
            problems.append(("deadlock-or-hang", "a workflow whose streaming out-port nobody consumes (%s) does not terminate" % mode))
        elif impl["rc"] != 0 or not impl["returned"]:
            problems.append(("unexpected-failure", "exit %s: %s" % (impl["rc"], impl["stderr"][-200:])))
        else:
            ran = [k for k in started_keys(impl["trace"]) if k.startswith("prod ")]
            if len(ran) != L:
                problems.append(("tasks-differ", "%d of the %d tasks of the stream producer ran" % (len(ran), L)))
            lo = [p for p, k in impl["snap_at_return"].items() if p.split("/")[-1].startswith("_scipipe_tmp") or k == "p"] + leftovers(impl["fs"])
            if lo:
                problems.append(("leftover-at-return", "temp dir or FIFO present when Run returns: %s" % sorted(set(lo))[:3]))
            traces = [p for p in impl["fs"] if p.endswith(".stream") or p.endswith(".stream2")]
            if traces:
                problems.append(("stream-left-trace", "a file exists at a streaming output path: %s" % traces[:2]))
            if mode == "dangling-beside-consumer":
                files = data_files(impl["fs"])
                bad = [p for p in paths if files.get(p + ".stream2.cons2") != sp.files[p]]
                if bad:
                    problems.append(("stream-bytes", "the consumed stream beside the dangling one did not deliver the producer's bytes for %s" % bad[:2]))
        return {"spec": sp.text(), "bufsize": sp.bufsize, "problems": problems, "ntasks": L, "nskip": 0, "rc": impl["rc"], "stderr": impl["stderr"][-300:],
                "yield": None, "wall": impl["wall"], "kind": kind_label + "-" + mode}
    finally:
        sc.close()


class RawSpec:
    """a workflow spec given as the text of a replay file (the line format wfrun and the model driver read)"""
    def __init__(self, text, bufsize=None):
        self.lines = [l for l in text.splitlines() if l.strip()]
        self.bufsize = bufsize
        self.files = {}
        self.max = 4
        self.runto = None
        self.nodes = []
        for l in self.lines:
            t = l.split()
            if t[0] == "FILE":
                self.files[unhx(t[1])] = unhx(t[2]) if len(t) > 2 else ""
            elif t[0] == "MAX":
                self.max = int(t[1])

    def text(self, with_files=True):
        return "\n".join(l for l in self.lines if with_files or not l.startswith("FILE ")) + "\n"

    def procs(self):
        return []


def replay_generic(r):
    """re-run the workflow of a replay file on the model and on the implementation and show where they differ;
    exit status 1 when the run again contradicts the model / the property, 0 when it does not reproduce"""
    import json
    print("property %s: %s" % (r.get("property"), (r.get("what") or "")[:600]))
    if not r.get("spec"):
        for k in ("kind", "theorem_or_correspondence", "input_line", "identity", "impl", "model", "detail", "disagreements"):
            if r.get(k) is not None:
                print("  %s: %s" % (k, str(r[k])[:800]))
        return 1 if r.get("kind") in ("proof-obligation", "correspondence", "proof-hygiene") else 0
    sp = RawSpec(r["spec"], r.get("bufsize"))
    case = r.get("case") or {}
    model = run_model(sp.text())
    print("model: status=%s failed=%s tasks=%d" % (model["status"], model["failed"], len(model["tasks"])))
    sc = Scratch()
    try:
        sc.plant(sp.files)
        crash = None
        if case.get("point"):
            crash = "%s:%d" % tuple(case["point"])
        ys = tuple(r["yield"]) if r.get("yield") else None
        impl = run_impl(sc, sp, crash=crash, yield_seed=ys, timeout=120)
        print("implementation: exit=%s returned=%s timed_out=%s%s" % (impl["rc"], impl["returned"], impl["timed_out"], (" (killed at %s)" % crash) if crash else ""))
        bad = 0
        if crash is None and model["status"] == "done" and not model["failed"]:
            if impl["timed_out"] or impl["rc"] != 0:
                print("  DIFFERENCE: the model completes, the implementation does not: %s" % impl["stderr"][-300:]); bad += 1
            real = data_files(impl["fs"])
            want = {p: c for p, c in model["files"].items() if not p.startswith("/")}
            for k in sorted(set(real) | set(want)):
                if real.get(k) != want.get(k):
                    print("  DIFFERENCE at %r: implementation %r, model %r" % (k, (real.get(k) or "")[:80] if real.get(k) is not None else None, (want.get(k) or "")[:80] if want.get(k) is not None else None)); bad += 1
            for p in leftovers(impl["fs"]):
                print("  LEFTOVER %s" % p); bad += 1
        else:
            for k, m in atomicity_problems(sp, model, impl["fs"]):
                print("  %s: %s" % (k, m)); bad += 1
            if model["status"] == "done" and model["failed"] and impl["rc"] == 0:
                print("  DIFFERENCE: a task fails in the model, the implementation exits 0"); bad += 1
        for k, m in replay_problems(sp, model, impl, ("slots", "tasks", "net", "port") if crash is None else ("slots", "tasks"), crash=case.get("point")):
            print("  %s: %s" % (k, m[:500])); bad += 1
        print("reproduced" if bad else "not reproduced on this run (the reported problems may depend on the schedule or on a longer history: %s)" % [p[0] for p in (r.get("problems") or [])][:4])
        return 1 if bad else 0
    finally:
        sc.close()
