#!/bin/bash
# runs the quick tier of every check for several seeds (false-alarm hunt on the unchanged tree)
cd "$(dirname "$0")/.."
./run.sh setup | tail -1
for seed in ${SEEDS:-1 2 3 4 5}; do
  for c in C01 C02 C03 C04 C05 C06 C07 C08 C09 C10 C11 C12 C13 C14 C15 C16 C17 C18 C19 C20; do
    out=$(VERIF_SEED=$seed ./run.sh quick $c 2>&1)
    echo "seed=$seed $(echo "$out" | grep -E "$c quick:" | tail -1) $(echo "$out" | grep -c '^VIOLATION') violations"
    echo "$out" | grep "violation:" | head -2 | cut -c1-600
  done
done
