# Common machinery of the scipipe verification checks.
import fcntl, glob, hashlib, json, os, random, re, shutil, subprocess, sys, tempfile, time

ROOT = os.path.dirname(os.path.dirname(os.path.abspath(__file__)))
REPO = os.environ.get("VERIF_REPO", "/repo")
BUILD = os.path.join(ROOT, "build")
BIN = os.path.join(BUILD, "bin")
COQ = os.path.join(ROOT, "coq")
NPROC = os.cpu_count() or 4

GOENV = dict(os.environ, GOFLAGS="-mod=mod", GOPROXY="off", GOSUMDB="off", GOTOOLCHAIN="local",
             CGO_ENABLED=os.environ.get("CGO_ENABLED", "1"))

TRUSTED_BASE = [
    "Coq 8.16.1 kernel (coqc; vm_compute used for computed obligations and refutation witnesses; no native_compute)",
    "axioms: none (Print Assumptions of every property theorem must say 'Closed under the global context'; checked on every run)",
    "translator tools/skel (Go AST -> coq/theories/Gen.v), trusted, purely syntactic",
    "extraction with ExtrOcamlBasic only (Extract Inductive bool/option/unit/list/prod/sumbool/sumor, Extract Inlined Constant andb/orb); no directive of our own; OCaml 4.13.1",
    "Go harness (harness/cmd/*), OCaml drivers (ocaml/driver.ml, ocaml/rdriver.ml: parsing and printing only), Python orchestration (tools/, checks/)",
    "history replay: tools/replay.py turns the hook event log into a script (trusted: the event-to-action mapping); acceptance is decided by the extracted Replay.replay using the transition system's own step function, and Replay.replay_sound (Coq) shows an accepted script yields an execution of the system",
    "modelled, not verified: Go runtime and memory model, bash, os/exec, the kernel's rename/FIFO semantics, encoding/json and regexp outside the modelled uses",
]


def log(*a):
    print(*a, file=sys.stderr, flush=True)


def sh(cmd, cwd=None, env=None, timeout=None, input=None, check=False):
    r = subprocess.run(cmd, cwd=cwd, env=env, timeout=timeout, input=input, text=True,
                       stdout=subprocess.PIPE, stderr=subprocess.STDOUT, shell=isinstance(cmd, str))
    if check and r.returncode != 0:
        raise RuntimeError("command failed (%d): %s\n%s" % (r.returncode, cmd, r.stdout[-4000:]))
    return r


class Lock:
    def __init__(self, name="build"):
        os.makedirs(BUILD, exist_ok=True)
        self.path = os.path.join(BUILD, "." + name + ".lock")

    def __enter__(self):
        self.f = open(self.path, "w")
        fcntl.flock(self.f, fcntl.LOCK_EX)
        return self

    def __exit__(self, *a):
        fcntl.flock(self.f, fcntl.LOCK_UN)
        self.f.close()


# ---------------------------------------------------------------- builds

def build_go(race=False):
    """(Re)build the harness binaries against /repo's current working tree, hooks on."""
    os.makedirs(BIN, exist_ok=True)
    out = {}
    with Lock("go"):
        h = os.path.join(ROOT, "harness")
        for cmd in sorted(os.listdir(os.path.join(h, "cmd"))):
            tgt = os.path.join(BIN, cmd + ("_race" if race else ""))
            if race and cmd not in ("wfrun",):
                continue
            args = ["go", "build", "-tags", "verif"] + (["-race"] if race else []) + ["-o", tgt, "./cmd/" + cmd]
            r = sh(args, cwd=h, env=GOENV, timeout=900)
            out[cmd] = (r.returncode == 0, r.stdout)
        # the scipipe CLI itself (package main), used by C20
        if not race:
            r = sh(["go", "build", "-tags", "verif", "-o", os.path.join(BIN, "scipipe_cli"), "./cmd/scipipe"], cwd=REPO, env=GOENV, timeout=900)
            out["scipipe_cli"] = (r.returncode == 0, r.stdout)
    return out


def regen_gen():
    """T1: regenerate coq/theories/Gen.v from /repo (only rewritten when its content changes)."""
    skel = os.path.join(BIN, "skel")
    tgt = os.path.join(COQ, "theories", "Gen.v")
    r = sh([skel, REPO], timeout=120)
    if r.returncode != 0:
        return False, r.stdout
    old = open(tgt).read() if os.path.exists(tgt) else None
    if old != r.stdout:
        with open(tgt, "w") as f:
            f.write(r.stdout)
    return True, ""


def coq_make(targets, timeout=900):
    """full .vo build of the given targets (never -vos)."""
    with Lock("coq"):
        ok, msg = regen_gen()
        if not ok:
            return False, "skel translator failed:\n" + msg
        mk = os.path.join(COQ, "Makefile")
        proj = os.path.join(COQ, "_CoqProject")
        if not os.path.exists(mk) or os.path.getmtime(mk) < os.path.getmtime(proj):
            sh(["coq_makefile", "-f", "_CoqProject", "-o", "Makefile"], cwd=COQ, check=True)
        tg = ["theories/%s.vo" % t for t in targets]
        r = sh(["timeout", str(timeout), "make", "-j%d" % NPROC, "-k"] + tg, cwd=COQ, timeout=timeout + 60)
        return r.returncode == 0, r.stdout


def build_ocaml():
    """extract the executable models and build the OCaml driver (after the model .vo files exist)."""
    with Lock("ocaml"):
        d = os.path.join(BUILD, "ocaml")
        os.makedirs(d, exist_ok=True)
        srcs = [os.path.join(COQ, "extract", "Extract.v"), os.path.join(ROOT, "ocaml", "driver.ml"),
                os.path.join(COQ, "extract", "ExtractReplay.v"), os.path.join(ROOT, "ocaml", "rdriver.ml")]
        deps = srcs + glob.glob(os.path.join(COQ, "theories", "*.vo"))
        h = hashlib.sha256()
        for p in sorted(deps):
            if p.endswith(".vo"):
                st = os.stat(p)
                h.update(("%s %d %d" % (p, st.st_size, st.st_mtime_ns)).encode())
            else:
                h.update(open(p, "rb").read())
        stamp = os.path.join(d, "stamp")
        if os.path.exists(stamp) and open(stamp).read() == h.hexdigest() and os.path.exists(os.path.join(BIN, "driver")) and os.path.exists(os.path.join(BIN, "rdriver")):
            return True, ""
        r = sh(["timeout", "600", "coqc", "-R", os.path.join(COQ, "theories"), "SP", srcs[0]], cwd=d)
        if r.returncode != 0:
            return False, r.stdout
        shutil.copy(srcs[1], d)
        r = sh(["ocamlfind", "ocamlopt", "-O2", "-w", "-a", "-package", "str", "model.mli", "model.ml", "driver.ml", "-o", os.path.join(BIN, "driver")], cwd=d, timeout=600)
        if r.returncode != 0:
            return False, r.stdout
        r = sh(["timeout", "600", "coqc", "-R", os.path.join(COQ, "theories"), "SP", srcs[2]], cwd=d)
        if r.returncode != 0:
            return False, r.stdout
        shutil.copy(srcs[3], d)
        r = sh(["ocamlfind", "ocamlopt", "-O2", "-w", "-a", "rmodel.mli", "rmodel.ml", "rdriver.ml", "-o", os.path.join(BIN, "rdriver")], cwd=d, timeout=600)
        if r.returncode != 0:
            return False, r.stdout
        open(stamp, "w").write(h.hexdigest())
        return True, ""


MODEL_FILES = ["TempDirModel", "Format", "WfModel", "Components", "Report", "Json", "ReplayInst"]   # what Extract.v needs (kept free of proofs about Gen.v)


def assumptions(module, theorems):
    """run Print Assumptions for each theorem; returns {name: text}."""
    d = tempfile.mkdtemp(prefix="pa_", dir=BUILD)
    res = {}
    todo = list(theorems)
    try:
        while todo:
            src = "From SP Require Import %s.\n" % module
            for t in todo:
                src += 'Goal True. idtac "@@BEGIN %s". exact I. Qed.\nPrint Assumptions %s.\n' % (t, t)
            src += 'Goal True. idtac "@@END". exact I. Qed.\n'
            open(os.path.join(d, "q.v"), "w").write(src)
            r = sh(["timeout", "600", "coqc", "-R", os.path.join(COQ, "theories"), "SP", "q.v"], cwd=d)
            cur = None
            for ln in r.stdout.splitlines():
                m = re.match(r"@@BEGIN (\S+)", ln)
                if m:
                    cur = m.group(1)
                    res[cur] = ""
                elif ln.startswith("@@END"):
                    cur = None
                elif cur:
                    res[cur] += ln.strip() + " "
            if r.returncode == 0:
                break
            # the theorem being printed when coqc stopped is missing or broken: record and go on with the rest
            if cur is None or cur not in todo:
                for t in todo:
                    res.setdefault(t, "ERROR: " + r.stdout[-300:])
                break
            res[cur] = "ERROR: " + res[cur]
            todo = todo[todo.index(cur) + 1:]
        return res
    finally:
        shutil.rmtree(d, ignore_errors=True)


FORBIDDEN = re.compile(r"\b(Admitted|admit|Axiom|Parameter|Conjecture|Admit Obligations|Unset Guard Checking|Unset Positivity Checking|Unset Universe Checking|bypass_check|type-in-type|impredicative-set)\b")


def forbidden_vernacular():
    """grep the development for anything that would weaken the proofs; Variable/Hypothesis outside a Section."""
    bad = []
    for p in sorted(glob.glob(os.path.join(COQ, "theories", "*.v")) + glob.glob(os.path.join(COQ, "extract", "*.v"))):
        depth = 0
        incomment = 0
        for i, ln in enumerate(open(p), 1):
            code = re.sub(r"\(\*.*?\*\)", "", ln)
            if FORBIDDEN.search(code) and "(*" not in ln:
                bad.append("%s:%d: %s" % (os.path.basename(p), i, ln.strip()))
            if re.match(r"\s*Section\b", code):
                depth += 1
            if re.match(r"\s*End\b", code) and depth > 0:
                depth -= 1
            if depth == 0 and re.match(r"\s*(Variable|Variables|Hypothesis|Hypotheses|Context)\b", code):
                bad.append("%s:%d: %s (outside a section)" % (os.path.basename(p), i, ln.strip()))
    return bad


# ---------------------------------------------------------------- T2 plumbing

def hx(s):
    if isinstance(s, str):
        s = s.encode("latin-1")
    return s.hex() if s else "-"


def unhx(t):
    return "" if t == "-" else bytes.fromhex(t).decode("latin-1")


def run_lines(binary, sub, lines, timeout=600):
    inp = "\n".join(lines) + "\n"
    r = subprocess.run([os.path.join(BIN, binary), sub], input=inp, text=True, capture_output=True, timeout=timeout)
    out = [l.rstrip() for l in r.stdout.splitlines()]
    return out, r


def t2_compare(sub, lines, timeout=900):
    """evaluate the same input lines on the implementation and on the extracted model; returns list of (idx, impl, model)."""
    impl, r1 = run_lines("t2", sub, lines, timeout)
    model, r2 = run_lines("driver", sub, lines, timeout)
    diffs = []
    if len(impl) != len(lines) or len(model) != len(lines):
        diffs.append((-1, "impl answered %d of %d lines; rc=%s; %s" % (len(impl), len(lines), r1.returncode, r1.stderr[-300:]),
                      "model answered %d of %d lines; rc=%s; %s" % (len(model), len(lines), r2.returncode, r2.stderr[-300:])))
        return diffs, impl, model
    for i, (a, b) in enumerate(zip(impl, model)):
        if a != b:
            diffs.append((i, a, b))
    return diffs, impl, model


def nondeterministic(sub, lines, reps=8):
    """evaluate each input line several times on the implementation; returns (line, answers) for the first line that does
    not always get the same answer, or None."""
    for l in lines:
        out, _ = run_lines("t2", sub, [l] * reps)
        if len(set(out)) > 1:
            return l, sorted(set(out))
    return None


# ---------------------------------------------------------------- reporting

def known_findings(pid):
    p = os.path.join(ROOT, "known_findings.json")
    if not os.path.exists(p):
        return []
    return [f for f in json.load(open(p)).get("findings", []) if f["property"] == pid]


class Report:
    def __init__(self, pid, tier, seed, keep_old=False):
        self.pid, self.tier, self.seed = pid, tier, seed
        self.t0 = time.time()
        for old in ([] if keep_old else glob.glob(os.path.join(ROOT, "replays", "%s_*.json" % pid))):
            os.remove(old)
        self.violations = []
        self.known = []
        self.cov = {"evaluations": 0, "distinct_nontrivial": 0, "rule": "", "samples": [],
                    "obligations": 0, "discharged": 0, "checker_cmd": "", "trusted_base": list(TRUSTED_BASE)}
        self.assump = []
        self.notes = {}

    def violation(self, what, replay, nofail=False):
        d = os.path.join(ROOT, "replays")
        os.makedirs(d, exist_ok=True)
        n = len(self.violations)
        path = os.path.join(d, "%s_%s_%d.json" % (self.pid, self.seed, n))
        replay = dict(replay, property=self.pid, what=what, seed=self.seed, tier=self.tier,
                      replay_cmd="./run.sh replay %s %s" % (self.pid, path))
        json.dump(replay, open(path, "w"), indent=1, default=str)
        self.violations.append((what, path, nofail))

    def known_finding(self, what):
        if what not in self.known:
            self.known.append(what)

    def finish(self):
        ev = {
            "property_id": self.pid, "tier": self.tier, "seed": self.seed, "level": "proof",
            "coverage": self.cov, "assumptions": self.assump, "wall_s": round(time.time() - self.t0, 2),
            "violations": len(self.violations),
        }
        ev["coverage"].update(self.notes)
        if self.known:
            ev["coverage"]["known_findings_reported"] = self.known
        # tools/seedtest.sh (runs against a deliberately broken tree) sets VERIF_EVIDENCE_DIR so that the committed evidence,
        # which must describe runs on /repo as it is, is not overwritten
        evdir = os.environ.get("VERIF_EVIDENCE_DIR") or os.path.join(ROOT, "evidence")
        os.makedirs(evdir, exist_ok=True)
        json.dump(ev, open(os.path.join(evdir, self.pid + ".json"), "w"), indent=1, default=str)
        for k in self.known:
            print("KNOWN-FINDING: property=%s %s" % (self.pid, k))
        for what, path, nofail in self.violations:
            print("VIOLATION property=%s replay=%s%s" % (self.pid, path, " no-failing-input-found" if nofail else ""))
        if self.violations:
            for what, path, nofail in self.violations[:5]:
                log("  violation:", what[:500])
        print("%s %s: %s (%d obligations, %d discharged, %d evaluations, %.1fs)" % (
            self.pid, self.tier, "VIOLATED" if self.violations else "ok", self.cov["obligations"],
            self.cov["discharged"], self.cov["evaluations"], time.time() - self.t0))
        return 1 if self.violations else 0


def cone_changes(module):
    """which functions entered or left the call cones this property's cone theorem is about (Gen.v against ExpectedCones.v)"""
    try:
        th = open(os.path.join(COQ, "theories", module + ".v")).read()
        gen = open(os.path.join(COQ, "theories", "Gen.v")).read()
        exp = open(os.path.join(COQ, "theories", "ExpectedCones.v")).read()
    except OSError:
        return {}
    def lists(txt, prefix):
        return {m.group(1): set(re.findall(r'"((?:[^"]|"")*)"', m.group(2)))
                for m in re.finditer(r"Definition %s(\w+) : list string :=\n  \[(.*?)\]\.\n" % prefix, txt, re.S)}
    g, e = lists(gen, "cone_"), lists(exp, "exp_cone_")
    out = {}
    for f in sorted(set(re.findall(r"strs_eqb cone_(\w+) exp_cone_", th))):
        a, b = g.get(f, set()), e.get(f, set())
        if a != b:
            out[f] = {"entered": sorted(a - b), "left": sorted(b - a)}
    return out


def prove(rep, module, theorems, extra_targets=()):
    """Build the property's theorem file (and what it depends on) against the regenerated Gen.v and
    check Print Assumptions.  Returns True when every obligation is discharged."""
    targets = [module] + list(extra_targets)
    ok, out = coq_make(targets + MODEL_FILES)
    rep.cov["checker_cmd"] = "cd coq && make -j theories/%s.vo (coq_makefile, full .vo build, coqc 8.16.1) after regenerating theories/Gen.v from /repo; then Print Assumptions for each theorem" % module
    rep.cov["obligations"] = len(theorems)
    bad = forbidden_vernacular()
    if bad:
        rep.cov["discharged"] = 0
        rep.violation("forbidden vernacular in the development: " + "; ".join(bad[:5]), {"kind": "proof-hygiene", "lines": bad}, nofail=True)
        return False
    vo = os.path.join(COQ, "theories", module + ".vo")
    if not ok or not os.path.exists(vo):
        errs = re.findall(r'File "\./theories/(\w+)\.v", line (\d+).*?\n(Error:.*?)(?:\n\n|\nmake|\Z)', out, re.S)
        rep.cov["discharged"] = 0
        rep.notes["broken_obligations"] = [{"file": f, "line": int(l), "error": e[:600]} for f, l, e in errs] or out[-1500:]
        cc = cone_changes(module)
        if cc:
            rep.notes["call_cone_changes"] = cc
        return False
    pa = assumptions(module, theorems)
    good = 0
    for t in theorems:
        txt = pa.get(t, "missing")
        if txt.strip().startswith("Closed under the global context"):
            good += 1
        else:
            rep.notes.setdefault("open_assumptions", {})[t] = txt[:400]
    rep.cov["discharged"] = good
    rep.assump.append("Print Assumptions: %d of %d theorems of %s are closed under the global context" % (good, len(theorems), module))
    if rep.tier == "thorough":
        # independent re-check of the compiled files (and everything they depend on) with coqchk; it lists the axioms used
        with Lock("coqchk"):
            r = sh(["timeout", "3000", "coqchk", "-silent", "-o", "-R", "theories", "SP", "SP." + module], cwd=COQ, timeout=3100)
        txt = r.stdout
        m = re.search(r"\* Axioms:\s*(.*?)\n\s*\n", txt, re.S)
        axioms = (m.group(1).strip() if m else "coqchk output not understood: " + txt[-300:])
        rep.notes["coqchk"] = {"cmd": "coqchk -silent -o -R theories SP SP.%s" % module, "exit": r.returncode, "axioms": axioms}
        rep.assump.append("coqchk (independent checker) re-checked %s and its dependencies: axioms = %s" % (module, axioms))
        if r.returncode != 0 or axioms != "<none>":
            rep.notes.setdefault("open_assumptions", {})["coqchk"] = axioms
            return False
    return good == len(theorems)


def coq_make_all(timeout=900):
    with Lock("coq"):
        ok, msg = regen_gen()
        if not ok:
            return False, msg
        sh(["coq_makefile", "-f", "_CoqProject", "-o", "Makefile"], cwd=COQ, check=True)
        r = sh(["timeout", str(timeout), "make", "-j%d" % NPROC], cwd=COQ, timeout=timeout + 60)
        return r.returncode == 0, r.stdout


def prepare(rep):
    """rebuild everything a check needs from /repo's current working tree (hooks on)."""
    os.makedirs(BIN, exist_ok=True)
    if not os.path.exists(os.path.join(BIN, "skel")) or True:
        r = sh(["go", "build", "-o", os.path.join(BIN, "skel"), "./cmd/skel"], cwd=os.path.join(ROOT, "harness"), env=GOENV)
        if r.returncode != 0:
            raise RuntimeError("cannot build the skel translator: " + r.stdout)
    out = build_go()
    bad = {k: m for k, (ok, m) in out.items() if not ok}
    if bad:
        rep.notes["go_build_errors"] = {k: v[-800:] for k, v in bad.items()}
        raise RuntimeError("harness does not build against /repo: %s" % bad)
