#!/bin/bash
# usage: [DEMO_TAGS=verif] [DEMO_RACE=-race] tools/confirm_seed.sh <seeded-dir> [demo-package-dir]
# confirms, in a scratch worktree of /repo, that the change compiles, passes the pinned tests, and that its demonstration
# fails with it and passes without it.  The worktree is removed afterwards.
d=/verif/seeded/$1; pkg=${2:-.}
export GOFLAGS=-mod=mod GOPROXY=off GOSUMDB=off GOTOOLCHAIN=local
w=$(mktemp -d /tmp/confirm.XXXXXX); rmdir $w
git -C /repo worktree add -q --detach $w HEAD || exit 2
trap 'git -C /repo worktree remove --force '$w' 2>/dev/null; rm -rf '$w EXIT
cd $w && git apply $d/patch.diff || { echo "patch does not apply"; exit 2; }
go build ./... && go build -tags verif ./... || { echo "BUILD FAILS"; exit 1; }
fails=$(go test -vet=off -count=1 -timeout 25m ./... 2>&1 | grep -E "^--- FAIL" | grep -v TestExecCmd_EchoFooBar)
[ -z "$fails" ] && echo "suite: passes (known-bad TestExecCmd_EchoFooBar aside)" || { echo "suite FAILS: $fails"; }
demo=$(ls $d/zz_demo*_test.go $d/demo*_test.go 2>/dev/null | head -1)
cp $demo $pkg/zz_demo_test.go
with=$(go test -vet=off $DEMO_RACE -tags "$DEMO_TAGS" -run TestDemo -count=1 -timeout 10m ./$pkg 2>&1 | tail -1)
git apply -R $d/patch.diff
without=$(go test -vet=off $DEMO_RACE -tags "$DEMO_TAGS" -run TestDemo -count=1 -timeout 10m ./$pkg 2>&1 | tail -1)
echo "demo with change:    $with"
echo "demo without change: $without"
