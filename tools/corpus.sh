#!/bin/bash
# usage: tools/corpus.sh [name-regex]   -- applies every seeded change (seeded/<name>/patch.diff) in turn to /repo, runs the quick
# tier of the check of the property it was written against (no search escalation), undoes it, and prints one line per change:
#   CONCRETE (a failing input was reported) | NOFAIL (only a broken obligation / correspondence) | MISSED | NOAPPLY
# Never run this while other checks are running: they build from /repo.
cd "$(dirname "$0")/.."
pat=${1:-.}
for d in $(ls seeded | grep -E "$pat"); do
  [ -f seeded/$d/patch.diff ] || continue
  c=$(python3 -c "import json;print(json.load(open('seeded/$d/meta.json')).get('property',''))" 2>/dev/null)
  [ -z "$c" ] && c=${d:0:3}
  out=$(VERIF_NO_SEARCH=1 VERIF_SEED=${VERIF_SEED:-1} tools/seedtest.sh $d quick $c 2>&1)
  if echo "$out" | grep -q "patch does not apply"; then v=NOAPPLY
  elif echo "$out" | grep "VIOLATION" | grep -qv "no-failing-input-found"; then v=CONCRETE
  elif echo "$out" | grep -q "VIOLATION"; then v=NOFAIL
  else v=MISSED; fi
  echo "$v $c $d"
  [ -n "$CORPUS_DETAIL" ] && echo "$out" | grep "violation:" | head -1 | cut -c1-260
done
