# "Kitchen-sink" workflows with model-free (metamorphic) oracles.
#
# The reference evaluator (WfModel) knows a fixed set of features.  The workflows generated here mix everything the harness
# can express -- the random workflows of t3.gen_workflow decorated with tagging components, sub-streams and joined ports,
# Concatenator / FileSplitter, Go-function processes, multi-core tasks, streaming pairs, parameter feeders that are components,
# additional files, RunTo -- and are judged by oracles that need no model: the property statements themselves, applied to
# two or more runs of the real library (same workflow under another schedule, run again in place, crashed and resumed ...).
# They serve the search for a failing input (feature interactions) beside the model-based correspondence; they prove nothing.
import json, os, random, shutil
from tools import t3, vlib
from tools.vlib import hx


def gen_ks(rng, allow_runto=True, allow_stream=True, allow_components=True, multi_out=True):
    sp = t3.gen_workflow(rng, maxlen=rng.choice([2, 3, 4]), nproc=rng.randint(1, 4), fanin=False, multi_out=multi_out)
    feats = []
    fileups = []          # (node index, port) of file out-ports whose stream has one item per source item
    for k, n in enumerate(sp.nodes):
        if n[0] == "SRC":
            fileups.append((k, "out"))
        elif n[0] == "PROC":
            for port, _ in n[1].outs:
                fileups.append((k, port))
    L = len(sp.nodes[0][2]) if sp.nodes and sp.nodes[0][0] == "SRC" else 0
    procs = sp.procs()
    # Go-function processes, multi-core tasks, additional files
    for p in procs:
        if rng.random() < 0.2 and all(len(u) == 1 for _, u in p.ins) and p.ins:
            p.gofunc, p.kind = True, "cattok"
            feats.append("gofunc")
        if rng.random() < 0.25:
            p.cores = rng.randint(1, sp.max)
            feats.append("cores")
    deco = rng.sample(["tags", "join", "concat", "split", "stream", "compfeed", "twojoin"], rng.randint(1, 3))
    if not fileups:
        deco = [d for d in deco if d in ("compfeed", "split", "tags")]
    if not allow_components:
        # components with a Run loop of their own write their files in place (no temp dir, no rename): out of a crash oracle
        deco = [d for d in deco if d not in ("concat", "split")]
    for d in deco:
        if d == "tags":
            # a tagging component on a fanned-out port of its own (MapToTags tags the shared IP in place, so what a sibling
            # consumer sees of the tag depends on timing: siblings get explicit output names); a consumer whose default
            # name carries the tag
            tpaths = ["ks_tag%d.txt" % j for j in range(rng.randint(1, 3))]
            for q in tpaths:
                sp.files[q] = q + "\n"
            u = (sp.src("ks_tsrc", tpaths), "out")
            tg = sp.raw("COMP maptags %s %s %d %s" % (hx("ks_tagger"), hx("g"), u[0], hx(u[1])))
            a = sp.proc(t3.Proc("ks_t1", kind="cattok", ins=[("a", [(tg, "out")])], outs=[("o", rng.choice([None, "{i:a}.t1.{t:a.g}"]))]))
            sp.proc(t3.Proc("ks_t2", kind="cat", ins=[("a", [(a, "o")])], outs=[("o", "{i:a}.t2")]))
            sp.proc(t3.Proc("ks_sib", kind="cat", ins=[("a", [u])], outs=[("o", "{i:a}.sib")]))
        elif d in ("join", "twojoin"):
            u = rng.choice(fileups)
            j = sp.s2s("ks_s2s_" + d, u[0], u[1])
            sep = rng.choice([" ", ",", ":"])
            pars = [("q", ("V", ["jv"]))] if rng.random() < 0.3 else []
            sp.proc(t3.Proc("ks_" + d, kind="cattok", ins=[("a", [(j, "substream")])], pars=pars, outs=[("o", "ks_%s.txt" % d)], join={"a": sep}))
        elif d == "concat":
            u = rng.choice(fileups)
            cc = sp.raw("COMP concat %s %s %d %s %s" % (hx("ks_cc"), hx("ks_all.txt"), u[0], hx(u[1]), hx("")))
            sp.proc(t3.Proc("ks_after", kind="cat", ins=[("a", [(cc, "out")])], outs=[("o", "{i:a}.after")]))
        elif d == "split":
            n = rng.randint(1, 3)
            path = rng.choice(["ks_big.txt", "ksd/ks_big.txt"])
            sp.files[path] = "".join("line %d\n" % j for j in range(rng.choice([0, 1, n, 2 * n, 2 * n + 1])))
            s = sp.src("ks_bigsrc", [path])
            c = sp.raw("COMP split %s %d %d %s" % (hx("ks_splitter"), n, s, hx("out")))
            sp.proc(t3.Proc("ks_part", kind="cat", ins=[("a", [(c, "split_file")])], outs=[("o", "{i:a}.part")]))
        elif d == "stream" and allow_stream and L > 0:
            u = rng.choice(fileups)
            pr = sp.proc(t3.Proc("ks_prod", kind="cat", ins=[("a", [u])], outs=[("o", "{i:a}.kstream")], stream_outs=["o"]))
            sp.proc(t3.Proc("ks_cons", kind="cat", ins=[("a", [(pr, "o")])], outs=[("o", "{i:a|basename}.kscons")]))
            sp.max += 2 * max(L, 1)
            for p in procs:
                p.cores = 1
        elif d == "compfeed":
            # parameter feeders that are components: CommandToParams / FileToParamsReader
            if rng.random() < 0.5:
                f = sp.raw("COMP c2p %s %s" % (hx("ks_lister"), hx("echo kv1; echo kv2")))
            else:
                sp.files["ks_params.txt"] = "kv1\nkv2\n"
                f = sp.raw("COMP f2p %s %s" % (hx("ks_reader"), hx("ks_params.txt")))
            sp.proc(t3.Proc("ks_fed", kind="write", pars=[("q", ("U", f))], outs=[("o", "ks_fed.{p:q}.txt")]))
        feats.append(d)
    if allow_runto and rng.random() < 0.15:
        idxs = [k for k, n in enumerate(sp.nodes) if n[0] == "PROC"]
        if idxs:
            sp.runto = [rng.choice(idxs)]
            sp.runto_mode = rng.choice(["N", "R", "P"])
            feats.append("runto")
    sp.ks_features = feats
    return sp


def _files(fs, audit=False):
    return {p: c for p, c in t3.data_files(fs, audit=audit).items()}


def _audits(fs):
    out = {}
    for p, v in fs.items():
        if v[0] == "f" and p.endswith(".audit.json") and not any(seg.startswith("_scipipe_tmp") for seg in p.split("/")):
            try:
                out[p] = t3.audit_norm(json.loads(v[1]))
            except ValueError:
                out[p] = "INVALID JSON"
    return out


def fresh_run(sp, **kw):
    sc = t3.Scratch()
    sc.plant(sp.files)
    return sc, t3.run_impl(sc, sp, **kw)


def ok_run(impl):
    return impl["rc"] == 0 and impl["returned"] and not impl["timed_out"]


def cleanup(work):
    for root, dirs, files in os.walk(work, topdown=True):
        for d in list(dirs):
            if d.startswith("_scipipe_tmp"):
                shutil.rmtree(os.path.join(root, d), ignore_errors=True)
                dirs.remove(d)
        for f in files:
            if f.endswith(".fifo"):
                os.remove(os.path.join(root, f))


def oracle_basic(sp, impl):
    """one run: completes, nothing temporary at return, every started command ended, slot bound from the commands' own clocks"""
    problems = []
    if impl["timed_out"] or "all goroutines are asleep" in impl["stderr"]:
        return [("hang", "the workflow does not terminate (features %s)" % sp.ks_features)]
    if not ok_run(impl):
        return [("unexpected-failure", "exit %s (features %s): %s" % (impl["rc"], sp.ks_features, impl["stderr"][-200:]))]
    lo = [p for p, k in impl["snap_at_return"].items() if p.split("/")[-1].startswith("_scipipe_tmp") or k == "p"] + t3.leftovers(impl["fs"])
    if lo:
        problems.append(("leftover-at-return", "temp dir or FIFO present when Run returns: %s" % sorted(set(lo))[:3]))
    S = [k for s, k, t in impl["trace"] if s == "S"]
    E = [k for s, k, t in impl["trace"] if s == "E"]
    if sorted(S) != sorted(E):
        problems.append(("command-unfinished", "commands started but not ended when Run returned: %s" % sorted(set(S) - set(E))[:3]))
    # slot bound: S/E stamps are taken by the commands themselves, inside the slot bracket
    cores = {p.name: p.cores for p in sp.procs()}
    ev = sorted([(t, 0 if s == "E" else 1, cores.get(k.split(" ")[0], 1)) for s, k, t in impl["trace"]])
    cur = 0
    for t, start, c in ev:
        cur += c if start else -c
        if cur > sp.max:
            problems.append(("slots-exceeded", "commands with %d cores in total were executing at one instant, maxConcurrentTasks is %d" % (cur, sp.max)))
            break
    return problems


def oracle_audit(sp, impl):
    """every file a task finalized has a valid audit record naming a process and a command; Upstream keys are existing files"""
    problems = []
    files = _files(impl["fs"])
    for p in files:
        if p in sp.files:
            continue
        v = impl["fs"].get(p + ".audit.json")
        if not v:
            continue        # files written by components (split parts, concatenations) carry records only where the component writes one
        try:
            rec = json.loads(v[1])
        except ValueError as e:
            problems.append(("audit-invalid-json", "%s.audit.json: %s" % (p, e))); continue
        for up in (rec.get("Upstream") or {}):
            if up not in files and not up.endswith(".kstream"):
                problems.append(("upstream-unknown", "%s.audit.json names the upstream %r, which is no file of the run" % (p, up)))
    return problems[:3]


def oracle_determinism(sp, ref, rng):
    """the same workflow under another schedule: same files, same bytes, same audit lineage (IDs and times aside)"""
    sc2, other = fresh_run(sp, yield_seed=(rng.randint(1, 10**6), rng.choice([100, 1000])), gomaxprocs=rng.choice([None, 1, 2]))
    try:
        if not ok_run(other):
            return [("schedule-dependent", "the workflow completes under one schedule and fails under another (exit %s): %s" % (other["rc"], other["stderr"][-200:]))]
        a, b = _files(ref["fs"]), _files(other["fs"])
        if a != b:
            diff = sorted(set(a) ^ set(b)) or [p for p in a if a[p] != b.get(p)]
            return [("schedule-dependent", "files / contents differ between two runs of the same workflow under different schedules: %s" % diff[:4])]
        if not {"twojoin", "join", "concat", "tags", "stream"} & set(sp.ks_features):   # stream: finding D12 (C17)
            x, y = _audits(ref["fs"]), _audits(other["fs"])
            if x != y:
                return [("schedule-dependent-audit", "audit records (IDs and times aside) differ between two runs under different schedules: %s" % [p for p in x if x[p] != y.get(p)][:3])]
        return []
    finally:
        sc2.close()


def oracle_rerun(sp, sc, ref):
    """run again in place: no command (the producer of a stream aside), no file created or changed"""
    before = {p: (v[2], v[3], v[1]) for p, v in ref["fs"].items() if v[0] == "f" and not t3.IGNORED.match(p) and not p.endswith(".audit.json")}
    r2 = t3.run_impl(sc, sp)
    problems = []
    if r2["timed_out"]:
        return [("rerun-hangs", "re-running the completed workflow does not terminate")]
    if not ok_run(r2):
        return [("rerun-fails", "re-running the completed workflow exits %s: %s" % (r2["rc"], r2["stderr"][-200:]))]
    ran = [k for k in t3.started_keys(r2["trace"]) if not k.startswith("ks_prod")]
    if ran:
        problems.append(("rerun-executes", "re-running a completed workflow executed %s" % ran[:3]))
    after = {p: (v[2], v[3], v[1]) for p, v in r2["fs"].items() if v[0] == "f" and not t3.IGNORED.match(p) and not p.endswith(".audit.json")}
    new = sorted(set(after) - set(before))
    if new:
        problems.append(("rerun-creates", "re-running a completed workflow created %s" % new[:3]))
    # Concatenator and FileSplitter rewrite their outputs on every run (components with a Run loop of their own, not tasks)
    ch = [p for p in before if before[p] != after.get(p) and not p.startswith("ks_all.txt") and "ks_big.txt" not in p]
    if ch:
        problems.append(("rerun-modifies", "re-running a completed workflow changed %s" % ch[:3]))
    lo = t3.leftovers(r2["fs"])
    if lo:
        problems.append(("rerun-leftovers", "temp dirs / FIFOs left after the re-run: %s" % lo[:3]))
    return problems


def oracle_crash(sp, ref, rng):
    """kill at a random hook point of Task.Execute / Process.Run (not between the renames of one task: finding D2), clean up,
    run again: the files of the uninterrupted run"""
    pts = [(n, k) for ts, n, k, keys, gid in ref["hooks"] if n.startswith(("exec.", "run.")) ]
    if not pts:
        return []
    pt = rng.choice(pts)
    sc, crashed = fresh_run(sp, crash="%s:%d" % pt)
    try:
        cleanup(sc.work)
        fin = t3.run_impl(sc, sp)
        if not ok_run(fin):
            return [("restart-fails", "killed at %s:%d, temp dirs removed, run again: exit %s: %s" % (pt[0], pt[1], fin["rc"], fin["stderr"][-200:]))]
        a, b = _files(ref["fs"]), _files(fin["fs"])
        if a != b:
            diff = sorted(set(a) ^ set(b)) or [p for p in a if a[p] != b.get(p)]
            return [("restart-differs", "killed at %s:%d, temp dirs removed, run again: files / contents differ from the uninterrupted run: %s" % (pt[0], pt[1], diff[:4]))]
        return []
    finally:
        sc.close()


def ks_case(args):
    """args = (seed, i, oracles): oracles is a subset of {"basic", "audit", "determinism", "rerun", "crash", "race"}"""
    seed, i, oracles = args
    rng = random.Random(seed * 982451653 + i)
    # crash oracle: single-output tasks only -- a kill that falls between the renames of one task is finding D2 (C03), and the
    # kill at a hook point of one task can fall there for another task
    sp = gen_ks(rng, allow_runto=("crash" not in oracles), allow_components=("crash" not in oracles), multi_out=("crash" not in oracles))
    if "race" in oracles:
        # a race-detector build; in half of the runs the hooks are inactive (they take no lock then and cannot hide a race)
        sc, ref = fresh_run(sp, binary="wfrun_race", timeout=120, env={"GORACE": "halt_on_error=0 exitcode=66"}, hooks_on=(rng.random() < 0.5))
        if "DATA RACE" in ref["stderr"] or ref["rc"] == 66:
            i0 = ref["stderr"].find("WARNING: DATA RACE")
            sc.close()
            return {"spec": sp.text(), "bufsize": sp.bufsize, "problems": [("data-race", "the Go race detector reports a data race: " + ref["stderr"][i0:i0 + 1500])], "ntasks": len(sp.nodes),
                    "rc": ref["rc"], "stderr": ref["stderr"][-200:], "yield": None, "wall": ref["wall"], "kind": "kitchen-sink", "features": sp.ks_features}
    else:
        sc, ref = fresh_run(sp)
    try:
        problems = oracle_basic(sp, ref)
        if not problems:
            if "audit" in oracles:
                problems += oracle_audit(sp, ref)
            if "determinism" in oracles:
                problems += oracle_determinism(sp, ref, rng)
            if "crash" in oracles:
                problems += oracle_crash(sp, ref, rng)
            if "rerun" in oracles:
                problems += oracle_rerun(sp, sc, ref)
        elif "basic" not in oracles and problems[0][0] not in ("unexpected-failure", "hang"):
            problems = []
        return {"spec": sp.text(), "bufsize": sp.bufsize, "problems": problems[:3], "ntasks": len(ref["trace"]) // 2, "nskip": 0, "rc": ref["rc"], "stderr": ref["stderr"][-300:],
                "yield": None, "wall": ref["wall"], "kind": "kitchen-sink", "features": sp.ks_features, "known": [], "joined": False, "records": 0, "shape": 99,
                "gofunc": sum(1 for p in sp.procs() if p.gofunc), "point": None, "mode": "kitchen-sink", "status": "ok", "L": 1, "sep": "", "conv": [], "d2": None, "second": None,
                "refused": False, "leftovers": 0}
    finally:
        sc.close()
