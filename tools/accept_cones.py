#!/usr/bin/env python3
"""Writes coq/theories/ExpectedCones.v from the call cones of /repo as it is now (harness/cmd/skel).  Run by hand, after
looking at what changed, when a change of the call structure has been accepted; never run by a check."""
import os, re, subprocess, sys
ROOT = os.path.dirname(os.path.dirname(os.path.abspath(__file__)))
sys.path.insert(0, ROOT)
from tools import vlib
vlib.build_go()
gen = subprocess.run([os.path.join(vlib.BIN, "skel"), vlib.REPO], capture_output=True, text=True).stdout
out = ["(* The call cones the models were compared with: for each function whose skeleton is in Expected.v, every function of",
       "   scipipe it can reach.  Written by tools/accept_cones.py from a tree on which all correspondence runs passed; compared",
       "   with the regenerated cone_* lists of Gen.v by the C??_cone_conforms theorems. *)",
       "From Coq Require Import List String.", "Import ListNotations.", "Open Scope string_scope.", ""]
n = 0
for m in re.finditer(r"Definition cone_(\w+) : list string :=\n  (\[.*?\])\.\n", gen, re.S):
    out.append("Definition exp_cone_%s : list string :=\n  %s.\n" % (m.group(1), m.group(2)))
    n += 1
open(os.path.join(ROOT, "coq", "theories", "ExpectedCones.v"), "w").write("\n".join(out))
print("ExpectedCones.v: %d cones" % n)
