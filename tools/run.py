#!/usr/bin/env python3
import importlib, json, os, sys, time, traceback
sys.path.insert(0, os.path.dirname(os.path.dirname(os.path.abspath(__file__))))
from tools import vlib


def setup():
    t0 = time.time()
    r = vlib.sh(["go", "build", "-o", os.path.join(vlib.BIN, "skel"), "./cmd/skel"], cwd=os.path.join(vlib.ROOT, "harness"), env=vlib.GOENV)
    os.makedirs(vlib.BIN, exist_ok=True)
    out = vlib.build_go()
    for k, (ok, msg) in out.items():
        if not ok:
            print("go build %s failed:\n%s" % (k, msg)); return 1
    ok, log = vlib.coq_make_all()
    if not ok:
        print(log[-3000:]); return 1
    ok, log = vlib.build_ocaml()
    if not ok:
        print(log[-3000:]); return 1
    print("setup ok in %.0fs" % (time.time() - t0))
    return 0


def main():
    if len(sys.argv) >= 2 and sys.argv[1] == "setup":
        sys.exit(setup())
    if len(sys.argv) < 3:
        print(__doc__ or "usage: run.py quick|thorough|replay Cxx [replay.json]"); sys.exit(2)
    tier, pid = sys.argv[1], sys.argv[2]
    seed = int(os.environ.get("VERIF_SEED", "20260929"))
    mod = importlib.import_module("checks." + pid.lower())
    if tier == "replay":
        sys.exit(mod.replay(json.load(open(sys.argv[3]))))
    rep = vlib.Report(pid, tier, seed)
    try:
        vlib.prepare(rep)
        mod.run(rep, tier, seed)
        if tier == "quick" and rep.violations and all(nofail for what, path, nofail in rep.violations) and os.environ.get("VERIF_NO_SEARCH") != "1":
            # a proof obligation or a correspondence is broken, but the quick generators found no input on which the
            # property itself fails: search with the thorough budget (other seed) before settling for no-failing-input-found
            vlib.log("obligation / correspondence broken without a failing input: searching with the thorough budget")
            rep2 = vlib.Report(pid, tier, "%s-search" % seed, keep_old=True)
            try:
                mod.run(rep2, "thorough", seed + 7919)
            except Exception:
                traceback.print_exc()
            concrete = [v for v in rep2.violations if not v[2]]
            if concrete:
                rep2.notes["search"] = "the quick tier found a broken obligation / correspondence only; this failing input was found by the search with the thorough budget"
                rep2.violations = concrete + [v for v in rep.violations]
                rep2.t0 = rep.t0
                rep = rep2
            else:
                rep.notes["search"] = "no failing input found by the quick tier nor by the search with the thorough budget (%d further evaluations)" % rep2.cov.get("evaluations", 0)
    except Exception as e:
        traceback.print_exc()
        rep.violation("check crashed: %r" % (e,), {"kind": "harness-error", "trace": traceback.format_exc()}, nofail=True)
    sys.exit(rep.finish())


if __name__ == "__main__":
    main()
