# Support tool (search, not proof): explicit-state exploration of small round-based dataflow networks with fan-in channels,
# sequential blocking sends / receives in an order chosen per round, bounded capacity; balanced acyclic networks only.
# Found the shape of finding D21 (DESIGN 11.20).  usage: python3 tools/fanin_mc.py <seed> <trials>
import itertools, sys, random
from collections import deque

def explore(n, chans, lens, cap, limit=400000):
    """nodes 0..n-1 (topological); chans: list of (srcs tuple, dst); lens: len per node (sources given, others derived)"""
    ins = {v: [c for c, (S, d) in enumerate(chans) if d == v] for v in range(n)}
    outs = {v: [c for c, (S, d) in enumerate(chans) if v in S] for v in range(n)}
    # node state: (k, phase, todo frozenset)   phase 0 = recv, 1 = send, 2 = done
    import itertools as IT
    def init_node(v):
        if not ins[v]:
            return (0, 3, ()) if lens[v] > 0 else (0, 2, ())
        return (0, 4, ())
    init = (tuple(init_node(v) for v in range(n)), tuple(0 for _ in chans))
    seen = {init}
    dq = deque([init])
    while dq:
        nodes, q = dq.popleft()
        succ = []
        for v in range(n):
            k, ph, todo = nodes[v]
            if ph == 2:
                continue
            if ph == 4:      # choose the order in which the in-ports are read in this round
                for perm in IT.permutations(ins[v]):
                    succ.append((v, (k, 0, perm), q))
                continue
            if ph == 3:      # choose the order in which the out-ports are served
                for perm in IT.permutations(outs[v]):
                    succ.append((v, (k, 1, perm), q))
                continue
            if ph == 0:
                if not todo:
                    succ.append((v, (k, 3, ()), q)); continue
                c = todo[0]
                if q[c] > 0:
                    q2 = list(q); q2[c] -= 1
                    succ.append((v, (k, 0, todo[1:]), tuple(q2)))
                elif all(nodes[s][1] == 2 for s in chans[c][0]):
                    succ.append((v, (k, 2, ()), q))     # saw a closed port: finishes
            else:
                if not todo:
                    k2 = k + 1
                    if not ins[v]:
                        nv = (k2, 3, ()) if k2 < lens[v] else (k2, 2, ())
                    else:
                        nv = (k2, 4, ())
                    succ.append((v, nv, q)); continue
                c = todo[0]
                if q[c] < cap:
                    q2 = list(q); q2[c] += 1
                    succ.append((v, (k, 1, todo[1:]), tuple(q2)))
        if not succ and any(nd[1] != 2 for nd in nodes):
            return ("STUCK", nodes, q)
        for v, nv, q2 in succ:
            st = (nodes[:v] + (nv,) + nodes[v + 1:], q2)
            if st not in seen:
                seen.add(st)
                if len(seen) > limit:
                    return ("LIMIT", None, None)
                dq.append(st)
    return ("OK", len(seen), None)

def derive_lens(n, chans, srclens):
    lens = {}
    for v in range(n):
        inc = [c for c, (S, d) in enumerate(chans) if d == v]
        if not inc:
            lens[v] = srclens.get(v, 1)
            continue
        vals = set(sum(lens[s] for s in chans[c][0]) for c in inc)
        if len(vals) != 1:
            return None
        lens[v] = vals.pop()
    return lens

random.seed(int(sys.argv[1]) if len(sys.argv) > 1 else 1)
found = 0
tried = 0
for trial in range(int(sys.argv[2]) if len(sys.argv) > 2 else 3000):
    n = random.randint(3, 6)
    nch = random.randint(2, 7)
    chans = []
    for _ in range(nch):
        d = random.randint(1, n - 1)
        k = random.choice([1, 1, 2, 2, 3])
        cands = list(range(d))
        S = tuple(sorted(random.sample(cands, min(k, len(cands)))))
        chans.append((S, d))
    # every non-first node that has no in-channel is a source; every node must be used
    srclens = {v: random.randint(1, 2) for v in range(n)}
    lens = derive_lens(n, chans, srclens)
    if lens is None or max(lens.values()) > 6:
        continue
    # a node sends at most once per round to a channel: fine by construction
    tried += 1
    r = explore(n, chans, lens, cap=random.choice([1, 1, 2]))
    if r[0] == "STUCK":
        found += 1
        print("STUCK", n, chans, lens, r[1], r[2])
        if found > 3:
            break
print("tried", tried, "stuck", found)
