#!/bin/bash
# independent re-check of the compiled development with coqchk (prints the axioms every loaded library relies on)
cd "$(dirname "$0")/.."
./run.sh setup | tail -1
cd coq
mods=$(ls theories/PropC*.v theories/ReplayInst.v | sed 's|theories/\(.*\)\.v|SP.\1|')
time timeout 10000 coqchk -silent -o -R theories SP $mods 2>&1 | tail -40
