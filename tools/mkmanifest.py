#!/usr/bin/env python3
# Regenerates MANIFEST.json from the registry below (run after adding a check).
import json, os, subprocess
ROOT = os.path.dirname(os.path.dirname(os.path.abspath(__file__)))

NOTE = ("Trusted: Coq 8.16.1 kernel (vm_compute, no native_compute), no axioms (Print Assumptions checked on every run), the skel translator (T1: control-flow skeletons and, via go/types, call cones -- C??_cone_conforms), "
        "ExtrOcamlBasic extraction + OCaml driver, the Go/Python harness. Modelled, not verified: Go runtime, bash, kernel FS/FIFO semantics (rename is atomic within a file system). "
        "COVERAGE.md lists, per function of scipipe, whether it has a reviewed skeleton, a T2 differential, lies in a call cone, or is tied to nothing.")

# pid -> (technique, level text, design ref, extra note)
CHECKS = {
 "C14": ("Coq proof (validity, reduction to SHA-1 collision, refutation witness) + T2 differential of the extracted TempDir model vs Task.TempDir + collision/stability/validity monitors",
         "Theorems over all task identities: the name is one valid segment <= 255 bytes; equal names imply equal SHA-1 of the hashed pre-images (nothing assumed about SHA-1); the non-injective pre-image is a refuted lemma and a recorded finding. The executable model is run against the real NewTask(...).TempDir() on exhaustive small and random large identities on every run.",
         "7 C14", ""),
 "C15": ("Coq proof (scanner = placeholders of a rendered pattern; global Replace acts piece-wise; test vectors; missing values fail) + T2 differential of the extracted Format model vs NewProc/NewTask/Task.Command, SetOut, default path function, applyPathModifiers, port discovery + independent documented-semantics oracle + general missing-value theorems for commands and SetOut patterns, default name independent of map enumeration order",
         "Theorems over all structured patterns for the scanner and the substitution step; the executable line-by-line model of formatCommand/applyPathModifiers/port discovery is run against the real functions on a structured and a malformed stream on every run, and the structured stream is also checked against the documented modifier semantics.",
         "7 C15", ""),
 "C13": ("Coq proof (temp path contains no ../ and is relative; refutation witnesses for non-canonical shapes) + T1 conformance of FinalizePaths/createDirs/executeCommand + T2 differential on a path grammar + T3 one-task workflows per output-path shape + PathFS/PathBridge: the file written at the placeholder lands at exactly the declared path (store with directories, every canonical path), input placeholders resolve to the input, additional files keep their relative location; FileIP.TempPath split at '/' is the segment-level encoding",
         "Theorems over all path strings for the encoding; skeleton conformance ties the rename source/target to the code; real workflows place a file through {o:..} for every shape of the grammar (plain, new sub-directories, parent-relative, absolute, place-holder-like segments) and check the property statement directly.",
         "7 C13", ""),
 "C01": ("Coq proof of an invariant of the TaskFS transition system over all schedules / kill instants / failure modes + T1 skeleton conformance of Task.Execute, FinalizePaths, FileIP.Write + T3 fault enumeration (kill at every hook point, five failure kinds, random SIGKILL) + T3-replay: the hook event log of every such run is replayed through the extracted TaskFS step function (Replay.replay_sound) and the model state it ends in is compared with the disk",
         "C01_atomic holds in every reachable state of the model for every task DAG, initial store, left-over set and schedule; the phase order it builds in is an obligation on the skeleton regenerated from the source; the real library is killed at every instrumented instant and made to fail in every modelled way, and each resulting directory is checked against the property statement.",
         "7 C01", ""),
 "C02": ("Coq proof (skip, untouched, re-run executes nothing) on TaskFS + T1 conformance + T3 with planted outputs and the history run / run-again + T3-replay of both runs through the extracted TaskFS step function",
         "Theorems for every DAG, every initial store (= every subset of pre-existing outputs with arbitrary content) and every schedule; real runs with planted outputs are compared with the reference evaluator and monitored for stamps (inode, mtime, bytes) and for any command of a skipped task.",
         "7 C02", ""),
 "C03": ("Coq proof (complete run = sequential reference; any task-atomic crash state re-runs to the same result; no re-execution; leftovers refused; refutation witness for mid-finalize) + T3 crash / re-run / cleanup / re-run histories incl. nested crashes + T3-replay of the crashed run, the refused re-run and the final run through the extracted TaskFS step function",
         "Convergence is proved for every crash state of every schedule under the guard finalize_atomic, whose complement is the recorded finding D2 (refuted lemma + replay); histories are enumerated on the real library over every hook point.",
         "7 C03", ""),
 "C04": ("Coq proof of history invariants of the process-network transition system (tasks = zip of in-edge histories, each emitted exactly once in order, completeness in final states, schedule independence) + T1 conformance of Process.Run / createTasks / ports + T3 random workflows vs the reference evaluator + T3-replay of every log through the extracted NetA+Ghost and TaskFS step functions (tasks created per process, in order, compared with the reference evaluator) + Port.v fan-in theorems (exactly-once delivery, closing with the last upstream, progress), replayed on fan-in and sink ports",
         "Theorems for every merge-free balanced acyclic configuration, every stream length, capacity >= 1 and every schedule; real workflows (incl. fan-in, parameter streams, port-less processes, streams longer than the buffers, perturbed schedules) must produce exactly the file set, bytes and task multiset of the Coq reference evaluator.",
         "7 C04", "Single-port fan-in and parameter ports are covered by the correspondence, not by the network theorems."),
 "C05": ("Coq proof (deadlock freedom for every reachable state by a blame argument, strictly decreasing potential, finished-implies-upstream-finished, completeness at the end) + T1 conformance of runProcs / Run / Sink + T3 termination and at-return snapshots + T3-replay of the logs through the extracted NetA step function",
         "Deadlock freedom and termination are proved for all merge-free balanced acyclic networks with capacity >= 1 and all schedules; the program's own snapshot right after Run returns is checked for every predicted output and for leftovers on shapes with several leaves, driver processes, port-less processes, chains longer than the buffers.",
         "7 C05, 11.9, 11.15, 11.17, 11.20", "C05_not_early is stated for file edges: a parameter feeder may close after its consumer has finished (C05_param_feeder_may_lag); Run waits for it through the WaitGroup of runProcs. NetSlots.v composes the network with the slot machine (C05_with_slots_*: no deadlock, termination, all done, maximal runs complete, for every slot count). Fan-in on every in-port of a process with a buffer smaller than the number of upstreams can deadlock: finding D21, recorded (C05_fanin_small_buffer_refuted); D19 (unconsumed streaming out-port) repaired."),
 "C08": ("Coq proof (emission order = creation order = arrival order, as an invariant over all schedules) + T1 conformance of the task queue handling + T3 recorders with inverted completion orders + T3-replay of the logs through the extracted NetA+Ghost step function + Port.v: per-upstream order through fan-in (C08_fanin_order), replayed on fan-in and sink ports",
         "For every configuration and schedule the sequence on an out-edge is the image of the created tasks in order; recorder components on real runs with later tasks finishing first must log exactly that order.",
         "7 C08", ""),
 "C09": ("Coq proof on TaskFS (failure leads to the absorbing exited state, failed outputs untouched, no dependant leaves Wait) + T1 conformance of the Fail paths + T3 failure injection incl. task-formation failures + T3-replay through the extracted TaskFS step function (the failing step must be enabled where the log stops)",
         "Theorems over all DAGs and schedules; real runs with one failing task (five failure kinds, shell and Go function, concurrent siblings) and formation failures are monitored for exit status, completion marker, failed outputs, dependants and content of everything finalized.",
         "7 C09", ""),
 "C06": ("Coq proof of the token invariant of the slot machine over all capacities, core counts and schedules + T1 exact conformance of IncConcurrentTasks / DecConcurrentTasks and their position in Task.Execute + T3 overlap and token-log monitors + T3-replay of the slot events through the extracted Slots step function",
         "The sum of cores of executing tasks is bounded by the capacity in every reachable state of the model, for every schedule; the model's program is the regenerated skeleton of the two slot functions; real runs with mixed core counts are monitored through command-interval overlap (a lower bound, so no false alarm) and the deposit/removal hook log.",
         "7 C06", ""),
 "C07": ("Coq proof (progress in every reachable state when cores <= cap; work conservation of acquire-only runs; refuted variant without the mutex) + T1 conformance + T3 rendezvous commands under seeded delays between token deposits, mixed-core competition, oversize rejection + T3-replay of the slot events through the extracted Slots step function",
         "Deadlock freedom and work conservation are theorems over all schedules of the slot machine; rendezvous workflows make non-simultaneous execution observable as a failure on the real library, with delays injected between the individual token deposits.",
         "7 C07", ""),
 "C16": ("Coq proof (recursive upstream collection = transitive closure on every acyclic graph; RunTo set exact and upward closed) + T1 conformance of runProcs / readyToRun / reconnect / collectUpstreamProcs / connect-disconnect + T3 with every kind of unconnected port and RunTo by name / regex / process",
         "Closure theorems for all acyclic graphs with fuel = number of processes; the readiness check precedes every process start (skeleton fact); real workflows with one unconnected port must exit non-zero without a command or a file, RunTo runs must produce exactly the closure's tasks and files as computed by the reference evaluator.",
         "7 C16 and 11.10", "Ready.v: every started process is covered by the readiness check (theorem), the pre-repair check is refuted (D18, fixed)."),
 "C17": ("Coq proof on the FIFO producer/consumer transition system (bytes conserved for every schedule, payload and pipe capacity; computed witnesses for the one-slot deadlock, the audit-link race and the undrained re-run) + T1 conformance + T3 streaming pairs and chains with payloads around the pipe buffer and the history run / run again",
         "Byte conservation, progress (no stuck state when a slot is available for the producer and one for the executing consumer, pipe capacity >= 1) and termination (decreasing measure) are theorems over all schedules, payloads and pipe capacities, for one producer / consumer pair and for any number of pairs sharing the slot counter (StreamN.v: C17_pairs_*), with the consumer executing or -- on a re-run -- skipped and draining (C17_rerun_untouched, C17_rerun_drained); chains are covered by the correspondence runs (payload sizes 0 .. 200000, both exit orders, two-piece writes); the kernel's FIFO semantics is modelled, not verified; the audit-link race is a recorded finding (D12).",
         "7 C17, 11.15, 11.17", "The pair machine inside a network is not composed with NetA; the sink draining an unconsumed stream (repair of D19) is the drain mode of the pair machine."),
 "C18": ("Coq proof about the model (one carrier per sub-stream, one task per carrier, join expansion for every length, resolvability) + T1 conformance of NewTask / createTasks + T2 join branch of formatCommand + T3 sub-streams of length 0 .. buffer+3",
         "The executable model's join branch is proved to expand to the members in order with the separator, and is tied to the code by T2 on Task.Command and by T3 runs whose output concatenates the members through the expanded placeholder; audit Upstream keys are checked on the real records.",
         "7 C18", ""),
 "C19": ("Coq proof (combine = columns of the Cartesian product for every number of ports and all lengths; selector = filter of aligned tuples; splitter conserves the normalised bytes and bounds part length; concatenation) + T2 of the exported combine + T3 with recorder components downstream of every bundled component",
         "Theorems for all inputs about the executable component models; the models are run against the exported combine functions and against the real components in workflows (all stream lengths 0..buffer+2, all predicate patterns, exact multiples / CRLF / unterminated files), with independent monitors of the property statement (product, conservation, bounds).",
         "7 C19", ""),
 "C20": ("Coq proof (flatten lists every ID of the tree exactly once; the report is a permutation of it sorted by start time with ties by ID; refuted pre-repair ordering) + T2 through the real scipipe binary on generated trees + executing generated Bash scripts of real runs + Bash.v: the generated script re-creates every listed output with the content of the complete run, for every dependency-closed selection and every concurrent execution",
         "Theorems over all record trees (any depth, fan-in, sharing); the extracted model's order is compared with the (process, ID) sequence parsed from audit2html / audit2tex / audit2bash output of the real CLI on generated trees with ties and zero times, and generated scripts of real workflows are executed and must re-create the file byte-identically.",
         "7 C20", ""),
 "C10": ("Coq proof (fields of the record a successful task stores on each output; incremental provenance over any history = recursive lineage; tag propagation from the AddTag semantics; refutation witness for sub-stream member tags) + T1 conformance of writeAuditLogs / tag accessors / NewFileIP / MapToTags + T3 comparison of every audit file with the model's lineage tree",
         "Theorems over all processes, worlds and histories of the audit model; every <path>.audit.json of real runs (multi-input/output, parameters, tagging component, sub-streams, sibling outputs) is parsed and compared recursively, without IDs and times, with the lineage computed by the Coq reference evaluator, plus direct monitors (valid JSON, times, OutFiles, tags of upstream records).",
         "7 C10", "Sub-stream member tags are a recorded finding (D13)."),
 "C11": ("Coq proof (resumed histories keep records; lineage independent of execution order for well-ordered histories; token-level JSON round trip for every record tree; escape round trip for every ASCII string) + T1 conformance + T3 histories (RunTo then Run; kill at hook points or inside a write(2) to an audit file via strace fault injection, cleanup, re-run; delete downstream outputs and re-run) + T2 of the JSON model against encoding/json",
         "Order independence and the round trips are theorems; the byte-level round trip through the MarshalIndent layout is proved for record trees with 7-bit strings and the renderer / decoder are compared with Go's encoder/decoder on generated trees on every run; resumed histories on the real library must reproduce the uninterrupted lineage exactly.",
         "7 C11 and 11.8", "The byte-level round trip (C11_roundtrip_bytes) covers record trees whose strings are 7-bit; bytes >= 0x80 are left to the correspondence with encoding/json."),
 "C12": ("Coq proof of lockset soundness over acquire/release/access traces + computed lock-discipline obligations on the skeletons regenerated from the source (tags map, audit record pointer, remote-port maps, slot deposit loop) + race-detector runs as the search for failing inputs",
         "Partial by nature: a data race is a property of the Go memory model. Proved: two accesses made under a common mutex are ordered by happens-before in every valid trace; computed on every run: all modelled accesses to the shared audit record and port maps hold the owning mutex, and task / process / tagging code touches the tags only through the guarded accessors. Fan-out / fan-in / multi-core / tagging workflows built with -race supply failing inputs (exit 66).",
         "7 C12, 11.11, 11.18", "D20 (FromStr feeder vs. wiring / RunTo traversal on InParamPort.RemotePorts) found by a seed sweep, repaired; the locked accessors are part of the computed discipline. C12_no_writes_to_package_variables is evaluated on the table of package-level assignments regenerated from the source. Not covered by any theorem: completeness of the access enumeration (aliasing), channel hand-offs, logging, the runtime's own synchronisation."),
}

def main():
    hooks_commit = subprocess.run(["git", "-C", "/repo", "log", "--format=%H", "--grep=^verif hooks"], capture_output=True, text=True).stdout.split()
    checks = []
    for pid in sorted(CHECKS):
        tech, text, ref, extra = CHECKS[pid]
        checks.append({
            "property_id": pid,
            "quick_cmd": "./run.sh quick %s" % pid,
            "thorough_cmd": "./run.sh thorough %s" % pid,
            "evidence_file": "/verif/evidence/%s.json" % pid,
            "replay_cmd_template": "./run.sh replay %s {path}" % pid,
            "engine": "coq+correspondence",
            "level_claimed": {"category": "proof", "text": text, "design_ref": "DESIGN.md section " + ref},
            "level_note": NOTE + (" " + extra if extra else ""),
            "technique": tech,
        })
    props = [json.loads(l)["id"] for l in open(os.path.join(ROOT, "properties.jsonl"))]
    na = [{"property_id": p, "reason": "check still under construction in this development (no technique switch intended); see DESIGN.md"} for p in props if p not in CHECKS]
    m = {
        "version": 1,
        "setup_cmd": "./run.sh setup",
        "hooks": {"guard": "verif", "enable": "go build -tags verif (harness module with replace github.com/scipipe/scipipe => /repo)",
                  "baseline_off_cmd": "cd /repo && go test -mod=mod -vet=off -count=1 -timeout 25m ./...",
                  "source_commits": hooks_commit, "add_only": True},
        "engines": [{"name": "coq+correspondence", "path": "/verif/coq, /verif/harness, /verif/ocaml, /verif/tools, /verif/checks",
                     "serves_properties": sorted(CHECKS), "kind_free_text": "Coq 8.16 theorems about executable models; T1 translator regenerates Gen.v from /repo on every run; T2/T3 correspondence runs the extracted models and the real library on the same inputs / workflows"}],
        "checks": checks,
        "not_applicable": na,
        "notes": "Technique family: machine-checked proof in Coq. See DESIGN.md.",
    }
    json.dump(m, open(os.path.join(ROOT, "MANIFEST.json"), "w"), indent=1)
    print("claimed:", sorted(CHECKS), "not yet:", [x["property_id"] for x in na])

if __name__ == "__main__":
    main()
